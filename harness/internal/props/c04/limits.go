package c04

import (
	"fmt"
	"math"
	"strconv"
	"strings"
	"time"

	"verif/internal/vp"
)

// ---------------------------------------------------------------------------
// stage "limits": implementation-limit templates
//
// A template maps N to a Lua chunk and to the value the Lua 5.4 manual gives
// it (a closed form in N, encoded like gl.Namer.Enc).  The verdict per
// (template, N) is: the value, or a compile error, or - for N >= killOKFrom
// only - a quota kill.  A panic, a runtime error or a different value refutes
// the property ("silently wrong code").

var limitNs = []int{10, 200, 250, 255, 256, 257, 300, 1<<15 - 1, 1<<15 + 1, 1<<16 - 1, 1<<16 + 1, 100000, 200000}

const killOKFrom = 100000

type template struct {
	name string
	gen  func(n int) (src, want string)
	maxN int // 0 = all
	// errOK: a runtime error matching this text is an accepted outcome (a
	// library limit reported as an ordinary Lua error)
	errOK string
	// killOKFrom overrides the N from which a quota kill is an honest outcome
	// (templates whose cost is not linear in N)
	killOKFrom int
}

// golua's compiler is markedly super-linear on deep nesting and on many
// simultaneously live registers (tens of seconds for N = 2^15 on several
// templates), so the quick tier runs every template for N <= 300 and only the
// quickTemplates at the 2^15 boundary (two of them at 2^16); the thorough tier
// runs the whole grid.
var quickTemplates = map[string]bool{
	"statements": true, "statements-in-function": true, "returns": true, "jump-if-skip": true, "jump-while": true, "jump-goto-backward": true,
	"jump-for": true, "jump-break": true, "elseif-branches": true, "constants-one-function": true, "constructor-hash": true, "constructor-array": true,
	"args-select": true, "binary-left-add": true, "and-or-chain": true, "call-chain": true, "long-string": true, "long-identifier": true,
	"long-escapes": true, "many-lines": true, "unary-minus": true, "constructor-vararg-tail": true,
}
var quick64k = map[string]bool{"constructor-hash": true, "long-string": true}

// thoroughMax caps N in the thorough tier for the templates whose compile time
// explodes (minutes per case beyond the cap); every other template runs the
// whole grid there.
var thoroughMax = map[string]int{"upvalues-flat": 1<<15 + 1, "upvalues-nested": 1<<15 + 1,
	"locals-seq": 1<<16 + 1, "locals-one-stat": 1<<16 + 1, "locals-nil": 1<<16 + 1, "locals-from-vararg": 1<<16 + 1, "locals-from-call": 1<<16 + 1,
	"locals-in-blocks": 1<<16 + 1, "multi-assign-globals": 1<<16 + 1, "multi-assign-from-vararg": 1<<16 + 1, "multi-assign-fields-from-call": 1<<16 + 1,
	"binary-right-paren": 1<<16 + 1, "binary-right-pow": 1<<16 + 1, "call-chain": 1<<16 + 1, "method-chain": 1<<16 + 1, "index-chain": 1<<16 + 1,
	"bracket-index-chain": 1<<16 + 1, "closures-many": 1<<16 + 1, "call-nested-args": 1<<16 + 1, "params": 1<<16 + 1, "unary-const-fold": 1<<16 + 1}

func (t template) wanted(n int, tier vp.Tier, sanitizer bool) bool {
	if t.maxN > 0 && n > t.maxN {
		return false
	}
	if m, ok := thoroughMax[t.name]; ok && n > m {
		return false
	}
	if tier == vp.Thorough {
		if sanitizer {
			// -race multiplies the (already super-linear) compile times
			return n <= 300 || n <= 1<<15+1 && quickTemplates[t.name]
		}
		return true
	}
	switch {
	case sanitizer:
		return n == 10 || n == 256 || n == 257
	case n <= 300:
		return true
	case n <= 1<<15+1:
		return quickTemplates[t.name]
	case n <= 1<<16+1:
		return quick64k[t.name]
	}
	return false
}

func encI(n int64) string   { return "i:" + strconv.FormatInt(n, 10) }
func encF(f float64) string { return "f:" + strconv.FormatUint(math.Float64bits(f), 16) }
func encB(b bool) string {
	if b {
		return "b:true"
	}
	return "b:false"
}

// seq joins f(1)..f(n) with sep.
func seq(n int, sep string, f func(i int) string) string {
	var b strings.Builder
	for i := 1; i <= n; i++ {
		if i > 1 {
			b.WriteString(sep)
		}
		b.WriteString(f(i))
	}
	return b.String()
}

func itoa(i int) string { return strconv.Itoa(i) }

func names(prefix string, n int) string {
	return seq(n, ",", func(i int) string { return prefix + itoa(i) })
}
func ints(n int) string { return seq(n, ",", itoa) }

func rep(s string, n int) string { return strings.Repeat(s, n) }

func tri(n int) int64 { return int64(n) * int64(n+1) / 2 }

var templates = []template{
	// ---- registers: locals, upvalues, parameters
	{name: "locals-seq", gen: func(n int) (string, string) {
		return seq(n, "\n", func(i int) string { return "local a" + itoa(i) + " = " + itoa(i) }) + "\nreturn a1 + a" + itoa(n), encI(int64(n) + 1)
	}},
	{name: "locals-one-stat", gen: func(n int) (string, string) {
		return "local " + names("a", n) + " = " + ints(n) + "\nreturn a1 + a" + itoa(n), encI(int64(n) + 1)
	}},
	{name: "locals-nil", gen: func(n int) (string, string) {
		return "local " + names("a", n) + "\nreturn a1 == nil and a" + itoa(n) + " == nil", encB(true)
	}},
	{name: "locals-from-vararg", gen: func(n int) (string, string) {
		return "local function f(...) local " + names("a", n) + " = ... return a1 + a" + itoa(n) + " end\nreturn f(" + ints(n) + ")", encI(int64(n) + 1)
	}},
	{name: "locals-from-call", gen: func(n int) (string, string) {
		return "local function g() return " + ints(n) + " end\nlocal function f() local " + names("a", n) + " = g() return a1 + a" + itoa(n) + " end\nreturn f()", encI(int64(n) + 1)
	}},
	{name: "locals-in-blocks", gen: func(n int) (string, string) {
		// N locals, but never more than one alive: always compilable
		return "local s = 0\n" + seq(n, "\n", func(i int) string { return "do local a = " + itoa(i) + " s = s + a end" }) + "\nreturn s", encI(tri(n))
	}},
	{name: "upvalues-flat", gen: func(n int) (string, string) {
		return seq(n, "\n", func(i int) string { return "local a" + itoa(i) + " = " + itoa(i) }) +
			"\nlocal function f() return " + seq(n, "+", func(i int) string { return "a" + itoa(i) }) + " end\nreturn f()", encI(tri(n))
	}},
	{name: "upvalues-nested", maxN: 1<<16 + 1, gen: func(n int) (string, string) {
		// levels of 100 locals; the innermost function sums all N variables
		var b strings.Builder
		levels := (n + 99) / 100
		for l := 0; l < levels; l++ {
			lo, hi := l*100+1, (l+1)*100
			if hi > n {
				hi = n
			}
			fmt.Fprintf(&b, "local function L%d()\n", l)
			for i := lo; i <= hi; i++ {
				fmt.Fprintf(&b, "local a%d = %d\n", i, i)
			}
		}
		b.WriteString("return " + seq(n, "+", func(i int) string { return "a" + itoa(i) }) + "\n")
		for l := levels - 1; l >= 0; l-- {
			fmt.Fprintf(&b, "end\nreturn L%d()\n", l)
		}
		return b.String(), encI(tri(n))
	}},
	{name: "params", gen: func(n int) (string, string) {
		return "local function f(" + names("a", n) + ") return a1 + a" + itoa(n) + " end\nreturn f(" + ints(n) + ")", encI(int64(n) + 1)
	}},
	{name: "args-select", gen: func(n int) (string, string) {
		return "return select('#', " + ints(n) + ")", encI(int64(n))
	}},
	{name: "args-vararg-table", gen: func(n int) (string, string) {
		return "local function f(...) local t = {...} return #t + t[" + itoa(n) + "] + select('#', ...) end\nreturn f(" + ints(n) + ")", encI(3 * int64(n))
	}},
	{name: "multi-assign-globals", gen: func(n int) (string, string) {
		return names("g", n) + " = " + ints(n) + "\nreturn g1 + g" + itoa(n), encI(int64(n) + 1)
	}},
	{name: "multi-assign-from-vararg", gen: func(n int) (string, string) {
		return "local function f(...) " + names("g", n) + " = ... end\nf(" + ints(n) + ")\nreturn g1 + g" + itoa(n), encI(int64(n) + 1)
	}},
	{name: "multi-assign-fields-from-call", gen: func(n int) (string, string) {
		return "local t = {}\nlocal function g() return " + ints(n) + " end\n" + seq(n, ",", func(i int) string { return "t[" + itoa(i) + "]" }) + " = g()\nreturn t[1] + t[" + itoa(n) + "]", encI(int64(n) + 1)
	}},
	// ---- constants
	{name: "constants-float", gen: func(n int) (string, string) {
		// N distinct float constants spread over functions of 100 statements
		var b strings.Builder
		nf := (n + 99) / 100
		for f := 0; f < nf; f++ {
			fmt.Fprintf(&b, "local function f%d(s)\n", f)
			for i := f*100 + 1; i <= (f+1)*100 && i <= n; i++ {
				fmt.Fprintf(&b, "s = s + %d.5\n", i)
			}
			b.WriteString("return s end\n")
		}
		b.WriteString("local s = 0.0\n")
		for f := 0; f < nf; f++ {
			fmt.Fprintf(&b, "s = f%d(s)\n", f)
		}
		b.WriteString("return s")
		return b.String(), encF(float64(tri(n)) + float64(n)/2)
	}},
	{name: "constants-string", gen: func(n int) (string, string) {
		var b strings.Builder
		b.WriteString("local t = {}\n")
		nf := (n + 99) / 100
		for f := 0; f < nf; f++ {
			fmt.Fprintf(&b, "local function f%d()\n", f)
			for i := f*100 + 1; i <= (f+1)*100 && i <= n; i++ {
				fmt.Fprintf(&b, "t[\"key-%07d\"] = %d\n", i, i)
			}
			b.WriteString("end\n")
		}
		for f := 0; f < nf; f++ {
			fmt.Fprintf(&b, "f%d()\n", f)
		}
		fmt.Fprintf(&b, "local c, s = 0, 0 for k, v in pairs(t) do c = c + 1 s = s + v end\nreturn c, s, t[\"key-%07d\"]", n)
		return b.String(), encI(int64(n)) + "," + encI(tri(n)) + "," + encI(int64(n))
	}},
	{name: "constants-one-function", gen: func(n int) (string, string) {
		return "local s = 0.0\n" + seq(n, "\n", func(i int) string { return "s = s + " + itoa(i) + ".25" }) + "\nreturn s", encF(float64(tri(n)) + float64(n)/4)
	}},
	{name: "closures-many", gen: func(n int) (string, string) {
		// N function constants
		var b strings.Builder
		b.WriteString("local s = 0\n")
		nf := (n + 99) / 100
		for f := 0; f < nf; f++ {
			fmt.Fprintf(&b, "local function f%d(s)\n", f)
			for i := f*100 + 1; i <= (f+1)*100 && i <= n; i++ {
				b.WriteString("s = s + (function() return 1 end)()\n")
			}
			b.WriteString("return s end\n")
		}
		for f := 0; f < nf; f++ {
			fmt.Fprintf(&b, "s = f%d(s)\n", f)
		}
		b.WriteString("return s")
		return b.String(), encI(int64(n))
	}},
	// ---- constructors
	{name: "constructor-array", gen: func(n int) (string, string) {
		return "local t = {" + ints(n) + "}\nreturn #t, t[1], t[" + itoa(n) + "], t[" + itoa(n+1) + "]", encI(int64(n)) + ",i:1," + encI(int64(n)) + ",n"
	}},
	{name: "constructor-hash", gen: func(n int) (string, string) {
		return "local t = {" + seq(n, ",", func(i int) string { return "k" + itoa(i) + "=" + itoa(i) }) + "}\nreturn t.k1 + t.k" + itoa(n), encI(int64(n) + 1)
	}},
	{name: "constructor-bracket-keys", gen: func(n int) (string, string) {
		return "local t = {" + seq(n, ",", func(i int) string { return "[" + itoa(i) + "]=" + itoa(i) }) + "}\nreturn #t + t[" + itoa(n) + "]", encI(2 * int64(n))
	}},
	{name: "constructor-vararg-tail", gen: func(n int) (string, string) {
		return "local function f(...) return {" + ints(n) + ", ...} end\nlocal t = f(7, 8)\nreturn #t, t[" + itoa(n) + "], t[" + itoa(n+1) + "], t[" + itoa(n+2) + "]",
			encI(int64(n)+2) + "," + encI(int64(n)) + ",i:7,i:8"
	}},
	{name: "constructor-call-tail", gen: func(n int) (string, string) {
		return "local function g() return " + ints(n) + " end\nlocal t = {0, g()}\nreturn #t, t[" + itoa(n+1) + "]", encI(int64(n)+1) + "," + encI(int64(n))
	}},
	{name: "constructor-nested", gen: func(n int) (string, string) {
		return "local t = " + rep("{", n) + "7" + rep("}", n) + "\nfor i = 1, " + itoa(n-1) + " do t = t[1] end\nreturn t[1]", encI(7)
	}},
	// ---- nesting depth of expressions
	{name: "parens", gen: func(n int) (string, string) {
		return "local x = 1\nreturn " + rep("(", n) + "x" + rep(")", n), encI(1)
	}},
	{name: "unary-minus", gen: func(n int) (string, string) {
		w := int64(1)
		if n%2 == 1 {
			w = -1
		}
		return "local x = 1\nreturn " + rep("- ", n) + "x", encI(w)
	}},
	{name: "unary-not", gen: func(n int) (string, string) {
		return "local x = true\nreturn " + rep("not ", n) + "x", encB(n%2 == 0)
	}},
	{name: "unary-const-fold", gen: func(n int) (string, string) {
		w := int64(1)
		if n%2 == 1 {
			w = -1
		}
		return "return " + rep("- ", n) + "1", encI(w)
	}},
	{name: "binary-left-add", gen: func(n int) (string, string) {
		return "local x = 1\nreturn " + seq(n, "+", func(int) string { return "x" }), encI(int64(n))
	}},
	{name: "binary-const-fold", gen: func(n int) (string, string) {
		return "return " + seq(n, "+", func(int) string { return "1" }), encI(int64(n))
	}},
	{name: "binary-right-paren", gen: func(n int) (string, string) {
		return "local x = 1\nreturn " + rep("x+(", n-1) + "x" + rep(")", n-1), encI(int64(n))
	}},
	{name: "binary-right-pow", gen: func(n int) (string, string) {
		// 1^1^...^1, right associative
		return "local x = 1\nreturn " + seq(n, "^", func(int) string { return "x" }), encF(1)
	}},
	{name: "concat-terms", killOKFrom: 1<<15 - 1, gen: func(n int) (string, string) {
		// the intermediate results take O(N^2) bytes unless the implementation concatenates all terms at once
		return "local s = 'a'\nreturn #(" + seq(n, "..", func(int) string { return "s" }) + ")", encI(int64(n))
	}},
	{name: "and-or-chain", gen: func(n int) (string, string) {
		return "local x = false\nreturn " + rep("x or ", n) + "7", encI(7)
	}},
	{name: "comparison-chain", gen: func(n int) (string, string) {
		return "local x = 1\nreturn " + seq(n, " and ", func(i int) string { return "x == 1" }), encB(true)
	}},
	{name: "index-chain", gen: func(n int) (string, string) {
		return "local t = {} t.a = t\nreturn t" + rep(".a", n) + " == t", encB(true)
	}},
	{name: "bracket-index-chain", gen: func(n int) (string, string) {
		return "local t = {} t[1] = t\nreturn t" + rep("[1]", n) + " == t", encB(true)
	}},
	{name: "call-chain", gen: func(n int) (string, string) {
		return "local function f() return f end\nreturn f" + rep("()", n) + " == f", encB(true)
	}},
	{name: "method-chain", gen: func(n int) (string, string) {
		return "local o = {c = 0} function o:m() self.c = self.c + 1 return self end\nreturn o" + rep(":m()", n) + ".c", encI(int64(n))
	}},
	{name: "call-nested-args", gen: func(n int) (string, string) {
		return "local function f(x) return x + 1 end\nreturn " + rep("f(", n) + "0" + rep(")", n), encI(int64(n))
	}},
	// ---- nesting depth of statements
	{name: "nested-do", gen: func(n int) (string, string) {
		return "local x = 0\n" + rep("do ", n) + "x = x + 1 " + rep("end ", n) + "\nreturn x", encI(1)
	}},
	{name: "nested-if", gen: func(n int) (string, string) {
		return "local x = 0\n" + rep("if x == 0 then ", n) + "x = x + 1 " + rep("end ", n) + "\nreturn x", encI(1)
	}},
	{name: "nested-while", gen: func(n int) (string, string) {
		return "local x = 0\n" + rep("while true do ", n) + "x = x + 1 " + rep("break end ", n) + "\nreturn x", encI(1)
	}},
	{name: "nested-for", gen: func(n int) (string, string) {
		return "local x = 0\n" + rep("for i = 1, 1 do ", n) + "x = x + 1 " + rep("end ", n) + "\nreturn x", encI(1)
	}},
	{name: "nested-repeat", gen: func(n int) (string, string) {
		return "local x = 0\n" + rep("repeat ", n) + "x = x + 1 " + rep("until true ", n) + "\nreturn x", encI(1)
	}},
	{name: "nested-functions", gen: func(n int) (string, string) {
		return "return " + rep("(function() return ", n) + "7" + rep(" end)()", n), encI(7)
	}},
	{name: "nested-function-stats", gen: func(n int) (string, string) {
		return seq(n, "\n", func(i int) string { return "local function f" + itoa(i) + "()" }) + "\nreturn 7\n" +
			seq(n, "\n", func(i int) string { return "end return f" + itoa(n-i+1) + "()" }), encI(7)
	}},
	// ---- jump distances
	{name: "jump-if-skip", gen: func(n int) (string, string) {
		return "local x = 0\nif x == 1 then\n" + rep("x = x + 1\n", n) + "end\nreturn x", encI(0)
	}},
	{name: "jump-if-else", gen: func(n int) (string, string) {
		return "local x = 0\nif x == 0 then\n" + rep("x = x + 1\n", n) + "else x = -1 end\nreturn x", encI(int64(n))
	}},
	{name: "jump-else-taken", gen: func(n int) (string, string) {
		return "local x = 0\nif x == 1 then x = -1 else\n" + rep("x = x + 1\n", n) + "end\nreturn x", encI(int64(n))
	}},
	{name: "jump-while", gen: func(n int) (string, string) {
		return "local i, x = 0, 0\nwhile i < 2 do i = i + 1\n" + rep("x = x + 1\n", n) + "end\nreturn x", encI(2 * int64(n))
	}},
	{name: "jump-while-skip", gen: func(n int) (string, string) {
		return "local x = 0\nwhile x ~= 0 do\n" + rep("x = x + 1\n", n) + "end\nreturn x", encI(0)
	}},
	{name: "jump-repeat", gen: func(n int) (string, string) {
		return "local i, x = 0, 0\nrepeat i = i + 1\n" + rep("x = x + 1\n", n) + "until i >= 2\nreturn x", encI(2 * int64(n))
	}},
	{name: "jump-for", gen: func(n int) (string, string) {
		return "local x = 0\nfor i = 1, 2 do\n" + rep("x = x + 1\n", n) + "end\nreturn x", encI(2 * int64(n))
	}},
	{name: "jump-for-in", gen: func(n int) (string, string) {
		return "local x = 0\nfor _, v in ipairs({1, 2}) do\n" + rep("x = x + v\n", n) + "end\nreturn x", encI(3 * int64(n))
	}},
	{name: "jump-goto-forward", gen: func(n int) (string, string) {
		return "local x = 0\ngoto done\n" + rep("x = x + 1\n", n) + "::done::\nreturn x", encI(0)
	}},
	{name: "jump-goto-backward", gen: func(n int) (string, string) {
		return "local i, x = 0, 0\n::top::\n" + rep("x = x + 1\n", n) + "i = i + 1\nif i < 2 then goto top end\nreturn x", encI(2 * int64(n))
	}},
	{name: "jump-break", gen: func(n int) (string, string) {
		return "local x = 0\nwhile true do\nif x == 0 then break end\n" + rep("x = x + 1\n", n) + "end\nreturn x", encI(0)
	}},
	{name: "jump-and-skip", gen: func(n int) (string, string) {
		return "local x, f = 1, false\nreturn f and (" + seq(n, "+", func(int) string { return "x" }) + ")", encB(false)
	}},
	{name: "jump-or-skip", gen: func(n int) (string, string) {
		return "local x = 1\nreturn x or (" + seq(n, "+", func(int) string { return "x" }) + ")", encI(1)
	}},
	{name: "elseif-branches", gen: func(n int) (string, string) {
		return "local x = " + itoa(n) + "\nif x == 0 then return 0\n" + seq(n, "\n", func(i int) string { return "elseif x == " + itoa(i) + " then return " + itoa(i) }) + "\nend\nreturn -1", encI(int64(n))
	}},
	{name: "elseif-fallthrough", gen: func(n int) (string, string) {
		return "local x, y = -5, 0\nif x == 0 then y = 0\n" + seq(n, "\n", func(i int) string { return "elseif x == " + itoa(i) + " then y = " + itoa(i) }) + "\nelse y = 7 end\nreturn y", encI(7)
	}},
	{name: "statements", gen: func(n int) (string, string) {
		return "local x = 0\n" + rep("x = x + 1\n", n) + "return x", encI(int64(n))
	}},
	{name: "statements-in-function", gen: func(n int) (string, string) {
		return "local function f(x)\n" + rep("x = x + 1\n", n) + "return x end\nreturn f(0)", encI(int64(n))
	}},
	{name: "labels-gotos", gen: func(n int) (string, string) {
		return "local x = 0\n" + seq(n, "\n", func(i int) string { return "goto l" + itoa(i) + " x = x + 1 ::l" + itoa(i) + "::" }) + "\nreturn x", encI(0)
	}},
	{name: "tbc-blocks", gen: func(n int) (string, string) {
		return "local c = 0\nlocal mt = {__close = function() c = c + 1 end}\n" + seq(n, "\n", func(i int) string { return "do local v <close> = setmetatable({}, mt) end" }) + "\nreturn c", encI(int64(n))
	}},
	{name: "tbc-nested", gen: func(n int) (string, string) {
		return "local c = 0\nlocal mt = {__close = function() c = c + 1 end}\ndo\n" + rep("do local v <close> = setmetatable({}, mt)\n", n) + rep("end ", n) + "end\nreturn c", encI(int64(n))
	}},
	// ---- results
	{name: "returns", gen: func(n int) (string, string) {
		return "return " + ints(n), seq(n, ",", func(i int) string { return "i:" + itoa(i) })
	}},
	{name: "returns-through-call", gen: func(n int) (string, string) {
		return "local function f() return " + ints(n) + " end\nreturn select('#', f()), (select(" + itoa(n) + ", f()))", encI(int64(n)) + "," + encI(int64(n))
	}},
	{name: "unpack-runtime", errOK: "too many", gen: func(n int) (string, string) {
		return "local t = {} for i = 1, " + itoa(n) + " do t[i] = i end\nreturn select('#', table.unpack(t, 1, " + itoa(n) + "))", encI(int64(n))
	}},
	// ---- tokens
	{name: "long-string", gen: func(n int) (string, string) {
		return "local s = \"" + rep("a", n) + "\"\nreturn #s, s == string.rep('a', " + itoa(n) + ")", encI(int64(n)) + ",b:true"
	}},
	{name: "long-bracket-string", gen: func(n int) (string, string) {
		return "local s = [==[" + rep("a", n) + "]==]\nreturn #s", encI(int64(n))
	}},
	{name: "long-escapes", gen: func(n int) (string, string) {
		return "local s = \"" + rep("\\x41", n) + "\"\nreturn #s, s:sub(-1)", encI(int64(n)) + `,s:"A"`
	}},
	{name: "long-identifier", gen: func(n int) (string, string) {
		id := rep("a", n)
		return "local " + id + " = 5\n" + id + "_g = 6\nreturn " + id + " + " + id + "_g", encI(11)
	}},
	{name: "long-comment", gen: func(n int) (string, string) {
		return "--" + rep("c", n) + "\n--[[" + rep("c", n) + "]]\nreturn 3", encI(3)
	}},
	{name: "long-numeral-zeros", gen: func(n int) (string, string) {
		return "return " + rep("0", n) + "1, 0x" + rep("0", n) + "1", "i:1,i:1"
	}},
	{name: "long-numeral-fraction", gen: func(n int) (string, string) {
		return "return 1." + rep("0", n) + " == 1, 0." + rep("0", n) + "1 < 1", "b:true,b:true"
	}},
	{name: "many-lines", gen: func(n int) (string, string) {
		return rep("\n", n) + "return 4", encI(4)
	}},
	{name: "long-field-name", gen: func(n int) (string, string) {
		id := rep("k", n)
		return "local t = {" + id + " = 9}\nreturn t." + id, encI(9)
	}},
}

func runLimitTemplates(x *exec) {
	c := x.c
	x.caseWall = 1800 * time.Second
	k := 0
	for _, t := range templates {
		for _, n := range limitNs {
			if !t.wanted(n, c.Tier, x.variant != "plain") {
				continue
			}
			k++
			if !c.Mine(k) {
				continue
			}
			x.limitCase(t, n)
			c.Flush(false)
		}
	}
	nb := len(boundaryTemplates)
	if c.Tier == vp.Quick {
		nb = 4
		if x.variant != "plain" {
			nb = 0
		}
	} else if x.variant != "plain" {
		nb = 4
	}
	for _, name := range boundaryTemplates[:nb] {
		for _, t := range templates {
			if t.name != name {
				continue
			}
			k++
			if c.Mine(k) {
				x.boundarySearch(t)
				c.Flush(false)
			}
		}
	}
}

// boundarySearch finds by bisection the largest N for which the template still
// compiles (the function just fits the 16-bit program counter / jump offsets)
// and judges the template at N-1, N and N+1: the longest jumps the encoding
// allows must still land where the manual says.
func (x *exec) boundarySearch(t template) {
	c := x.c
	compiles := func(n int) (bool, bool) {
		src, _ := t.gen(n)
		x.begin(fmt.Sprintf("limit %s N=%d (boundary search)", t.name, n), src)
		c.Eval(1)
		s := x.newSess(false)
		var res result
		r := x.guarded(func() result {
			_, res := compile(s, "limit", src)
			return res
		})
		res = r
		if res.kind != kHang {
			x.closeSess(s)
		}
		if res.kind == kPanic {
			c.Violation("panic", fmt.Sprintf("limit %s N=%d compile %s", t.name, n, panicSig(res.panicMsg, res.stack)),
				fmt.Sprintf("template %s with N=%d: a Go panic escaped the compile entry point: %s\n%s", t.name, n, res.panicMsg, res.stack), "")
			return false, false
		}
		return res.kind == kOK, res.kind != kHang
	}
	lo, hi := 300, 40000
	okLo, fine := compiles(lo)
	if !fine {
		return
	}
	okHi, fine := compiles(hi)
	if !fine {
		return
	}
	if !okLo || okHi {
		c.Feature("boundary/none-in-range/"+t.name, 1)
		return
	}
	for hi-lo > 1 {
		mid := (lo + hi) / 2
		ok, fine := compiles(mid)
		if !fine {
			return
		}
		if ok {
			lo = mid
		} else {
			hi = mid
		}
	}
	c.Feature("boundary/found/"+t.name, 1)
	c.Feature(fmt.Sprintf("boundary/%s/largest-compilable-N=%d", t.name, lo), 1)
	for _, n := range []int{lo - 1, lo, lo + 1} {
		x.limitCase(t, n)
	}
}

var boundaryTemplates = []string{"jump-while", "jump-if-skip", "jump-goto-backward", "jump-for", "jump-if-else", "jump-else-taken", "jump-repeat",
	"jump-break", "jump-for-in", "jump-while-skip", "jump-goto-forward", "jump-and-skip", "jump-or-skip", "elseif-branches", "elseif-fallthrough",
	"statements", "statements-in-function", "call-chain", "method-chain", "labels-gotos", "tbc-blocks", "locals-in-blocks"}

func (x *exec) limitCase(t template, n int) {
	c := x.c
	src, want := t.gen(n)
	id := fmt.Sprintf("limit %s N=%d", t.name, n)
	x.begin(id, src)
	c.Eval(1)
	s := x.newSess(false)
	res := x.compileAndRun(s, "limit", src, bigLimits)
	if res.kind != kHang {
		x.closeSess(s)
	}
	c.Feature("outcome/"+res.phase+"-"+res.kind, 1)
	c.Feature(fmt.Sprintf("N=%d/%s", n, res.kind), 1)
	short := src
	if len(short) > 600 {
		short = short[:300] + "\n...[" + itoa(len(src)) + " bytes]...\n" + short[len(short)-200:]
	}
	sig := fmt.Sprintf("limit %s N=%d", t.name, n)
	switch res.kind {
	case kPanic:
		c.Violation("panic", sig+" "+res.phase+" "+panicSig(res.panicMsg, res.stack),
			fmt.Sprintf("template %s with N=%d: a Go panic escaped the %s entry point: %s\n%s", t.name, n, res.phase, res.panicMsg, res.stack), short)
	case kHang:
		return
	case kSyntaxError:
		// every template is valid Lua: the parser may only refuse it for a limit it states
		c.Feature("syntax-error/"+t.name, 1)
		if !strings.Contains(res.errMsg, "too") && !strings.Contains(res.errMsg, "limit") && !strings.Contains(res.errMsg, "overflow") {
			c.Violation("wrong", sig+" syntax-error", fmt.Sprintf("template %s with N=%d is valid Lua but was rejected with a syntax error: %s", t.name, n, res.errMsg), short)
		}
		return
	case kCompileError:
		c.Feature("compile-error/"+msgClass(res.errMsg), 1)
		if n < 200 {
			// no implementation limit is anywhere near N=10: the chunk is plain valid Lua
			c.Violation("wrong", sig+" compile-error", fmt.Sprintf("template %s with N=%d is small valid Lua but was rejected: %s", t.name, n, res.errMsg), short)
		}
	case kKilled:
		from := killOKFrom
		if t.killOKFrom > 0 {
			from = t.killOKFrom
		}
		if n < from {
			c.Violation("wrong", sig+" killed", fmt.Sprintf("template %s with N=%d was killed by the quota (cpu %d, mem %d used) although its cost is linear in N: %s",
				t.name, n, res.used.Cpu, res.used.Memory, res.errMsg), short)
		}
	case kError:
		if t.errOK != "" && strings.Contains(res.errMsg, t.errOK) {
			c.Feature("library-limit-error/"+t.name, 1)
			break
		}
		c.Violation("wrong", sig+" runtime-error", fmt.Sprintf("template %s with N=%d compiled but raised %q; expected %s", t.name, n, res.errMsg, abbreviate(want)), short)
	case kOK:
		if res.rets != want {
			c.Violation("wrong", sig+" wrong-value", fmt.Sprintf("template %s with N=%d returned %s; the manual gives %s", t.name, n, abbreviate(res.rets), abbreviate(want)), short)
		} else {
			c.Feature("value-ok", 1)
		}
	}
	c.NonTrivial(vp.Hash("limits", x.variant, t.name, itoa(n)))
	if x.wantSample() && n >= 200 {
		x.sample(map[string]interface{}{"stage": "limits", "template": t.name, "N": n, "input": short, "outcome": res.kind, "value": abbreviate(res.rets), "error": res.errMsg})
	}
}

func abbreviate(s string) string {
	if len(s) > 200 {
		return s[:100] + "...[" + itoa(len(s)) + " bytes]..." + s[len(s)-60:]
	}
	return s
}
