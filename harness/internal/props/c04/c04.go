// Package c04 checks property C04 (no Lua source or program can crash the
// embedding Go process) by executing hostile workloads against the real
// compiler, VM and standard library inside resource-limited contexts, with a
// recover() wrapper around every entry into golua and a parent process that
// attributes the death of a child to the journalled case.
//
// Stages (each also in a -race / -asan variant, see Plan):
//
//	source   random bytes, random token strings and byte/token-level mutations
//	         of the repository's own *.lua files and of a snippet corpus
//	limits   implementation-limit templates with a closed-form expected value
//	stdlib   every reachable library function x edge-value argument tuples
//	reentry  unbounded recursion through every Go re-entry point
package c04

import (
	"errors"
	"fmt"
	"os"
	"path/filepath"
	"regexp"
	"runtime/debug"
	"strings"
	"syscall"
	"time"

	rt "github.com/arnodel/golua/runtime"

	"verif/internal/gl"
	"verif/internal/vp"
)

type Prop struct{}

func (Prop) ID() string { return "C04" }

func (Prop) Plan(t vp.Tier) []vp.Stage {
	st := func(name string, nb, timeout int) vp.Stage {
		s := vp.Stage{Name: name, NBatches: nb, TimeoutS: timeout, CrashSig: CrashSig}
		switch {
		case strings.HasSuffix(name, "-race"):
			s.Race = true
		case strings.HasSuffix(name, "-asan"):
			s.Asan = true
		}
		return s
	}
	if t == vp.Thorough {
		return []vp.Stage{
			st("source", 64, 1200),
			st("limits", 32, 1200),
			st("stdlib", 64, 1200),
			st("reentry", 16, 1200),
			st("source-race", 64, 2400),
			st("limits-race", 32, 2400),
			st("stdlib-race", 64, 2400),
			st("reentry-race", 16, 2400),
			st("source-asan", 64, 2400),
			st("stdlib-asan", 64, 2400),
		}
	}
	return []vp.Stage{
		st("source", 16, 280),
		st("limits", 16, 280),
		st("stdlib", 16, 280),
		st("reentry", 16, 280),
		st("source-race", 8, 280),
		st("limits-race", 8, 280),
		st("stdlib-race", 8, 280),
		st("reentry-race", 8, 280),
	}
}

func (Prop) Describe(t vp.Tier) vp.Description {
	return vp.Description{
		Rule: "Every case runs the real golua pipeline: the input is journalled, compiled with Runtime.CompileAndLoadLuaChunk under recover(), and what " +
			"compiles is run through Thread.CallContext with a CPU and a memory limit under recover(). Refuting events: a Go panic other than the " +
			"documented ContextTerminationError escaping the compile or call entry points; the child process dying (fatal error, Go stack exhaustion, " +
			"panic on a coroutine goroutine, signal), attributed to the journalled case; for a limit template any outcome other than the closed-form " +
			"value, a compile error (N >= 200 only), or (only for N >= 1e5, or super-linear templates) a quota kill. Stages: source = random bytes / " +
			"random token strings / byte-, token- and line-level mutations of /repo's *.lua files and a snippet corpus (2e4 quick, 1e6 thorough; a tenth " +
			"of that under -race, and under -asan in the thorough tier); limits = 79 templates scaled through N in {10..2e5} (quick: N <= 300 for all, " +
			"2^15+-1 for 22 templates, 2^16+-1 for 2; -race: N in {10,256,257} quick, N <= 300 plus 22 templates at 2^15+-1 thorough) plus a bisection of " +
			"the largest N that compiles for 4 / 22 jump templates; stdlib = every function reachable from _G, package.loaded, the string/file/context/" +
			"resources metatables and returned functions x tuples from an edge pool (exhaustive for arity <= 2 over the 41-value core pool in the quick " +
			"tier and the 117-value pool in the thorough tier, 1e5 / 2e6 sampled tuples of arity 2-4; every 10th call under -race in the quick tier; " +
			"core-pool pairs and 5e5 sampled tuples under -race and -asan in the thorough tier); reentry = 73 programs recursing without bound through every metamethod and library callback " +
			"under 2 (quick) / 3 (thorough) limit sets. " +
			"A case is non-trivial when it got past the parser (compiled, or was rejected by the compiler back end) or, for a library call, " +
			"when it was not rejected by an argument check ('bad argument'/'must be'/'value needed' errors); distinct by hash of (stage, input).",
		Assumptions: []string{
			"all executions run inside a context with a CPU and a memory limit; an unlimited context that exhausts the host on request is outside the property (DESIGN section 7)",
			"excluded by contract: os.exit, os.execute/io.popen of arbitrary commands (a short allow-list is kept), debug.sethook with a non-returning hook; stdin is /dev/null",
			"a watchdog expiry (deadlock) is counted inconclusive here; deadlocks are judged by C09",
			"held on the inputs generated from the seed, not on all byte strings",
			"the limit templates' expected values are closed forms derived from the Lua 5.4 manual, independent of golua",
		},
		Floor: map[vp.Tier]int64{vp.Quick: 20000, vp.Thorough: 500000}[t],
		Extra: map[string]interface{}{
			"limits_cpu":    runLimits.HardLimits.Cpu,
			"limits_memory": runLimits.HardLimits.Memory,
			"limit_Ns":      limitNs,
		},
	}
}

// Context limits for the run of every case.
var (
	srcLimits = rt.RuntimeContextDef{HardLimits: rt.RuntimeResources{Cpu: 300_000, Memory: 64 << 20}}
	runLimits = rt.RuntimeContextDef{HardLimits: rt.RuntimeResources{Cpu: 2_000_000, Memory: 64 << 20}}
	bigLimits = rt.RuntimeContextDef{HardLimits: rt.RuntimeResources{Cpu: 50_000_000, Memory: 64 << 20}}
	// the runtime itself lives in a (generous) limited root context so that
	// finalisers run by Runtime.Close are bounded too
	rootLimits = rt.RuntimeContextDef{HardLimits: rt.RuntimeResources{Cpu: 400_000_000, Memory: 1 << 30}}
)

func rtString(s string) rt.Value { return rt.StringValue(s) }

func baseStage(stage string) (base, variant string) {
	if i := strings.IndexByte(stage, '-'); i >= 0 {
		return stage[:i], stage[i+1:]
	}
	return stage, "plain"
}

func (Prop) RunBatch(c *vp.Child) {
	x := newExec(c, true)
	defer x.cleanup()
	base, _ := baseStage(c.Stage)
	switch base {
	case "source":
		runSource(x)
	case "limits":
		runLimitTemplates(x)
	case "stdlib":
		runStdlib(x)
	case "reentry":
		runReentry(x)
	}
	c.Feature("abandoned-goroutines", int64(x.abandoned))
}

// Replay re-runs a recorded witness: the input is Lua source (for the stdlib
// stage a chunk "return f(args)" over the prelude of pool constructors).
func (Prop) Replay(c *vp.Child, input string) {
	x := newExec(c, false)
	defer x.cleanup()
	// a crash witness is the journal "caseID\ninput": drop the id line
	for _, p := range []string{"src ", "limit ", "call ", "reentry "} {
		if i := strings.IndexByte(input, '\n'); i >= 0 && strings.HasPrefix(input, p) {
			input = input[i+1:]
			break
		}
	}
	s := x.newSess(true)
	defer x.closeSess(s)
	installPrelude(x, s)
	r := x.compileAndRun(s, "replay", input, bigLimits)
	fmt.Printf("replay outcome: %s rets=[%s] %s %s\n", r.kind, abbreviate(r.rets), r.errMsg, r.panicMsg)
	if r.kind == kPanic {
		c.Violation("panic", "replay "+panicSig(r.panicMsg, r.stack), r.panicMsg+"\n"+r.stack, input)
	}
}

// ---------------------------------------------------------------------------
// executor

// VERIF_C04_TRACE=1 makes the children log every case with its duration (debugging only).
var traceCases = os.Getenv("VERIF_C04_TRACE") != ""

type exec struct {
	c         *vp.Child
	scratch   string
	abandoned int
	caseWall  time.Duration
	variant   string
	cur       string
	nSamples  int
}

// Two samples per stage, from the first batch of the plain variant only, so
// that the evidence file shows every stage.
func (x *exec) wantSample() bool { return x.c.Batch == 0 && x.variant == "plain" && x.nSamples < 2 }

func (x *exec) sample(v interface{}) {
	x.nSamples++
	x.c.Sample(v)
}

// begin journals the case about to run (vp.Child.Begin).
func (x *exec) begin(id, input string) {
	x.cur = id
	x.c.Begin(id, input)
}

func newExec(c *vp.Child, quietStdout bool) *exec {
	x := &exec{c: c, caseWall: 45 * time.Second}
	_, x.variant = baseStage(c.Stage)
	x.scratch = filepath.Join(c.WorkDir, "scratch")
	os.MkdirAll(x.scratch, 0o755)
	os.Chdir(x.scratch)
	os.Setenv("TMPDIR", x.scratch)
	// stdin is /dev/null (reads return EOF at once)
	if null, err := os.OpenFile("/dev/null", os.O_RDWR, 0); err == nil {
		syscall.Dup3(int(null.Fd()), 0, 0)
		if quietStdout {
			// what Lua programs print to the real stdout is discarded so that
			// the batch log keeps only crash output
			syscall.Dup3(int(null.Fd()), 1, 0)
		}
	}
	return x
}

func (x *exec) cleanup() {
	os.Chdir(x.c.WorkDir)
	os.RemoveAll(x.scratch)
}

// slice returns n, or a tenth of it for the quick tier's sanitizer slices.
func (x *exec) slice(n int) int {
	if x.variant != "plain" && x.c.Tier == vp.Quick {
		n /= 10
	}
	return n
}

const (
	kOK           = "ok"
	kCompileError = "compile-error"
	kSyntaxError  = "syntax-error"
	kError        = "error"
	kKilled       = "killed"
	kPanic        = "panic"
	kHang         = "hang"
)

type result struct {
	kind     string
	rets     string
	errMsg   string
	panicMsg string
	stack    string
	phase    string // "compile" or "run"
	used     rt.RuntimeResources
	vals     []rt.Value // returned values (kind ok)
}

// guarded runs f on its own goroutine; if it does not come back within the
// per-case wall-clock guard the goroutine is abandoned and the case is counted
// inconclusive (never a verdict).
func (x *exec) guarded(f func() result) result {
	ch := make(chan result, 1)
	t0 := time.Now()
	go func() { ch <- f() }()
	select {
	case r := <-ch:
		if traceCases {
			fmt.Fprintf(os.Stderr, "TRACE %8.1fms %-8s %s\n", float64(time.Since(t0).Microseconds())/1000, r.kind, x.cur)
		}
		return r
	case <-time.After(x.caseWall):
		x.abandoned++
		x.c.Inconclusive("case exceeded the per-case wall guard (possible deadlock, judged by C09)")
		return result{kind: kHang}
	}
}

func (x *exec) newSess(rooted bool) *gl.Sess {
	o := gl.Options{}
	if rooted {
		d := rootLimits
		o.Ctx = &d
	}
	return gl.NewSess(o)
}

// closeSess closes a session; a panic out of Close is itself a violation.
func (x *exec) closeSess(s *gl.Sess) {
	r := x.guarded(func() (res result) {
		defer func() {
			if p := recover(); p != nil {
				if _, ok := p.(rt.ContextTerminationError); ok {
					return
				}
				res = result{kind: kPanic, panicMsg: fmt.Sprint(p), stack: string(debug.Stack())}
			}
		}()
		s.Close()
		return result{kind: kOK}
	})
	if r.kind == kPanic {
		x.c.Violation("panic", "close "+panicSig(r.panicMsg, r.stack), "Runtime.Close panicked: "+r.panicMsg+"\n"+r.stack, "")
	}
}

// compile compiles src with a recover wrapper.
func compile(s *gl.Sess, name, src string) (clos *rt.Closure, res result) {
	res.phase = "compile"
	defer func() {
		if p := recover(); p != nil {
			clos = nil
			if _, ok := p.(rt.ContextTerminationError); ok {
				res.kind = kKilled
				res.errMsg = fmt.Sprint(p)
				return
			}
			res.kind, res.panicMsg, res.stack = kPanic, fmt.Sprint(p), string(debug.Stack())
		}
	}()
	cl, err := s.R.CompileAndLoadLuaChunk(name, []byte(src), rt.TableValue(s.R.GlobalEnv()))
	if err != nil {
		res.errMsg = err.Error()
		if _, ok := rt.AsSyntaxError(err); ok {
			res.kind = kSyntaxError
		} else {
			res.kind = kCompileError
		}
		return nil, res
	}
	res.kind = kOK
	return cl, res
}

// callInContext calls f(args) inside a fresh context with the given limits
// (Thread.CallContext), with a recover wrapper.
func callInContext(s *gl.Sess, def rt.RuntimeContextDef, f rt.Value, args []rt.Value) (res result) {
	res.phase = "run"
	defer func() {
		if p := recover(); p != nil {
			res.kind, res.panicMsg, res.stack = kPanic, fmt.Sprint(p), string(debug.Stack())
			if _, ok := p.(rt.ContextTerminationError); ok {
				// the documented termination, raised because the enclosing (root) context ran out
				res.kind, res.errMsg = kKilled, res.panicMsg
			}
		}
	}()
	term := rt.NewTerminationWith(nil, 0, true)
	t := s.R.MainThread()
	ctx, err := t.CallContext(def, func() error {
		return rt.Call(t, f, args, term)
	})
	if ctx != nil {
		res.used = ctx.UsedResources()
	}
	switch {
	case ctx != nil && ctx.Status() == rt.StatusKilled:
		res.kind = kKilled
		if err != nil {
			res.errMsg = err.Error()
		}
	case err != nil:
		res.kind = kError
		res.errMsg = err.Error()
	default:
		res.kind = kOK
		res.vals = term.Etc()
		res.rets = s.N.EncList(res.vals)
	}
	return
}

// compileAndRun compiles src and, if it compiles, runs it under limits.
func (x *exec) compileAndRun(s *gl.Sess, name, src string, limits rt.RuntimeContextDef) result {
	return x.guarded(func() result {
		clos, res := compile(s, name, src)
		if clos == nil {
			return res
		}
		return callInContext(s, limits, rt.FunctionValue(clos), nil)
	})
}

// callValue calls f(args) under limits.
func (x *exec) callValue(s *gl.Sess, f rt.Value, args []rt.Value, limits rt.RuntimeContextDef) result {
	return x.guarded(func() result {
		return callInContext(s, limits, f, args)
	})
}

// ---------------------------------------------------------------------------
// sandbox: the functions excluded by contract

var allowedCommands = map[string]bool{"true": true, "false": true, "exit 3": true, "echo hi": true}

var errExcluded = errors.New("excluded by the C04 harness contract")

// sandbox replaces os.exit by a function raising an error, and io.popen /
// os.execute by wrappers that only let the allow-listed commands through.
// The originals are returned (the stdlib stage calls them with vetted args).
func sandbox(s *gl.Sess) {
	r := s.R
	get := func(t *rt.Table, k string) rt.Value { return t.Get(rt.StringValue(k)) }
	if osT, ok := get(r.GlobalEnv(), "os").TryTable(); ok {
		r.SetEnvGoFunc(osT, "exit", func(t *rt.Thread, c *rt.GoCont) (rt.Cont, error) {
			return nil, errExcluded
		}, 2, false)
		wrapCommand(r, osT, "execute")
	}
	if ioT, ok := get(r.GlobalEnv(), "io").TryTable(); ok {
		wrapCommand(r, ioT, "popen")
	}
}

func wrapCommand(r *rt.Runtime, tbl *rt.Table, name string) {
	orig := tbl.Get(rt.StringValue(name))
	if orig.IsNil() {
		return
	}
	r.SetEnvGoFunc(tbl, name, func(t *rt.Thread, c *rt.GoCont) (rt.Cont, error) {
		if c.NArgs() > 0 {
			if cmd, ok := c.Arg(0).ToString(); ok && !allowedCommands[cmd] {
				return nil, errExcluded
			}
		}
		next, err := rt.Continue(t, orig, c.Next())
		if err != nil {
			return nil, err
		}
		t.Push(next, c.Args()...)
		return next, nil
	}, 2, false)
}

// ---------------------------------------------------------------------------
// signatures

var (
	reHex    = regexp.MustCompile(`0x[0-9a-fA-F]+`)
	reNum    = regexp.MustCompile(`[0-9]+`)
	reQuoted = regexp.MustCompile(`"[^"]*"|'[^']*'`)
)

// msgClass normalises a panic message: numbers, addresses and quoted operands
// are abstracted so that one defect gives one class.
func msgClass(msg string) string {
	if i := strings.IndexByte(msg, '\n'); i >= 0 {
		msg = msg[:i]
	}
	msg = reHex.ReplaceAllString(msg, "0x?")
	msg = reQuoted.ReplaceAllString(msg, "<q>")
	msg = reNum.ReplaceAllString(msg, "N")
	if len(msg) > 100 {
		msg = msg[:100]
	}
	return strings.TrimSpace(msg)
}

// topFrame returns the innermost golua function of a Go stack trace (the
// text of debug.Stack() or of a crash dump), skipping the frames of the
// recover wrapper and of the panic machinery.
func topFrame(stack string) string {
	lines := strings.Split(stack, "\n")
	start := 0
	for i, l := range lines {
		if strings.HasPrefix(l, "panic(") || strings.HasPrefix(l, "runtime.throw(") || strings.HasPrefix(l, "runtime.newstack(") {
			start = i + 1
		}
	}
	for _, l := range lines[start:] {
		if strings.HasPrefix(l, "\t") || strings.HasPrefix(l, " ") {
			continue
		}
		if !strings.Contains(l, "github.com/arnodel/golua/") {
			continue
		}
		if i := strings.LastIndexByte(l, '('); i > 0 {
			l = l[:i]
		}
		l = strings.TrimPrefix(l, "github.com/arnodel/golua/")
		l = strings.TrimSuffix(l, "...")
		return l
	}
	return "?"
}

func firstLineOf(s string) string {
	if i := strings.IndexByte(s, '\n'); i >= 0 {
		return s[:i]
	}
	return s
}

func panicSig(msg, stack string) string {
	return msgClass(msg) + " @ " + topFrame(stack)
}

var crashLineRE = regexp.MustCompile(`(?m)^(panic: .*|fatal error: .*|==\d+==ERROR: .*|SIGSEGV.*|unexpected fault.*)$`)

// CrashSig is the signature of a dead child: the class of the case that was
// running (first two words of the journalled id), the class of the panic /
// fatal line and the innermost golua frame of the first goroutine dumped.
func CrashSig(logTail, lastCase string) string {
	id := lastCase
	if i := strings.IndexByte(id, '\n'); i >= 0 {
		id = id[:i]
	}
	w := strings.Fields(id)
	if len(w) > 3 {
		w = w[:3]
	}
	line := crashLineRE.FindString(logTail)
	if line == "" {
		line = "unknown"
	}
	// "panic: X [recovered]\n\tpanic: Y": Y is what killed the process
	for strings.HasSuffix(line, "[recovered]") {
		i := strings.Index(logTail, line)
		rest := strings.TrimLeft(logTail[i+len(line):], "\n\t ")
		if !strings.HasPrefix(rest, "panic: ") {
			break
		}
		line = firstLineOf(rest)
	}
	frame := "?"
	if i := strings.Index(logTail, line); i >= 0 {
		rest := logTail[i:]
		// the goroutine that died is the first one dumped after the line
		if j := strings.Index(rest, "\ngoroutine "); j >= 0 {
			rest = rest[j+1:]
			if k := strings.Index(rest, "\n\ngoroutine "); k >= 0 {
				rest = rest[:k]
			}
		}
		frame = topFrame(rest)
	}
	return strings.Join(w, " ") + " " + msgClass(line) + " @ " + frame
}
