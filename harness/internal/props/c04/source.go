package c04

import (
	"fmt"
	"math/rand"
	"os"
	"path/filepath"
	"runtime/debug"
	"sort"
	"strings"

	"verif/internal/vp"
)

// ---------------------------------------------------------------------------
// stage "source": byte strings as source text

// snippets: valid Lua 5.4 programs covering the whole syntax; together with
// the repository's own *.lua files they are the seeds of the mutations.
var snippets = []string{
	`local a, b, c = 1, 2.5, "s" return a + b, c .. a`,
	`local t = {1, 2, 3; x = 1, ["y z"] = 2, [10] = 3, f = function(self, ...) return select('#', ...) end} return #t, t.x, t["y z"], t[10], t:f(1, 2, 3)`,
	`local function fact(n) if n <= 1 then return 1 else return n * fact(n - 1) end end return fact(10)`,
	`local s = 0 for i = 1, 10 do s = s + i end for i = 10, 1, -2 do s = s - i end for i = 1.0, 2.0, 0.25 do s = s + i end return s`,
	`local t = {10, 20, 30, a = 1} local n = 0 for k, v in pairs(t) do n = n + v end for i, v in ipairs(t) do n = n + i * v end return n`,
	`local i = 0 while i < 10 do i = i + 1 if i == 5 then break end end repeat local z = i i = i - 1 until z < 2 return i`,
	`for i = 1, 3 do for j = 1, 3 do if j == 2 then goto continue end print(i, j) ::continue:: end end`,
	`do local x <const> = 42 local y <close> = setmetatable({}, {__close = function() print("closed") end}) print(x) end`,
	`local function v(...) local a, b = ... return select("#", ...), a, b, ... end return v(), v(1), v(1, 2, 3), (v(1, 2))`,
	`local mt = {__add = function(a, b) return 1 end, __sub = function() return 2 end, __mul = function() return 3 end, __div = function() return 4 end,
  __mod = function() return 5 end, __pow = function() return 6 end, __unm = function() return 7 end, __idiv = function() return 8 end,
  __band = function() return 9 end, __bor = function() return 10 end, __bxor = function() return 11 end, __shl = function() return 12 end,
  __shr = function() return 13 end, __bnot = function() return 14 end, __concat = function() return "c" end, __len = function() return 15 end,
  __eq = function() return true end, __lt = function() return true end, __le = function() return false end,
  __index = function(t, k) return k end, __newindex = function(t, k, v) rawset(t, k, v) end, __call = function(self, ...) return ... end,
  __tostring = function() return "obj" end, __name = "T", __close = function() end, __gc = function() end, __mode = "k"}
local a, b = setmetatable({}, mt), setmetatable({}, mt)
return a + b, a - b, a * b, a / b, a % b, a ^ b, -a, a // b, a & b, a | b, a ~ b, a << b, a >> b, ~a, a .. b, #a, a == b, a < b, a <= b, a.foo, a(1, 2), tostring(a)`,
	`local co = coroutine.create(function(a, b) local c = coroutine.yield(a + b) local d, e = coroutine.yield(c * 2) return d + e end)
print(coroutine.resume(co, 1, 2)) print(coroutine.resume(co, 10)) print(coroutine.resume(co, 3, 4)) print(coroutine.resume(co)) print(coroutine.status(co))`,
	`local gen = coroutine.wrap(function() for i = 1, 3 do coroutine.yield(i) end end) print(gen(), gen(), gen()) print(coroutine.isyieldable(), coroutine.running())`,
	`print(pcall(error, "msg")) print(pcall(error, {code = 1})) print(xpcall(function() local x = nil; return x.y end, function(m) return "handled: " .. tostring(m) end))
print(select(2, pcall(error, "lvl2", 2))) print(pcall(error)) print(pcall(pcall, error))`,
	`print(string.format("%5d|%-5s|%5.2f|%x|%q|%c|%g|%i|%o|%e|%a|%%", 42, "ab", 3.14159, 255, "q\n\0", 65, 1e20, 7, 8, 1.5, 1.0))`,
	`print(("hello world"):find("o w"), ("hello"):match("(h)(e)"), ("abc"):gsub("%w", "%0%0"), ("a,b,c"):gmatch("[^,]+")())
print(("x"):rep(3, "-"), ("abc"):sub(-2), ("abc"):byte(1, -1), string.char(104, 105), ("AbC"):lower(), ("AbC"):upper(), ("abc"):reverse(), #"abc")
print(("f(a,b)"):find("%((.-)%)"), ("THE (quick) fox"):find("%((%a+)%)"), ("hello"):gsub("l+", {ll = "LL"}), ("abc"):gsub("", "-"), ("  x "):match("^%s*(.-)%s*$"))
print(string.find("a.b", ".", 1, true), string.match("key=val", "(%w+)=(%w+)"), string.gsub("abc", "b", "%%"), ("%bxy"):len(), ("[a]"):find("[]]"), ("f(a(b)c)"):match("%b()"), ("THE END"):find("%f[%a]%a+"))`,
	`local t = {5, 2, 8, 1} table.sort(t) table.sort(t, function(a, b) return a > b end) table.insert(t, 9) table.insert(t, 1, 0) print(table.remove(t), table.remove(t, 1), table.concat(t, ","), table.unpack(t))
print(table.pack(1, nil, 3).n, table.move({1, 2, 3}, 1, 3, 2)[3], select(-1, 1, 2, 3), next({}), rawlen({1, 2}), rawequal(t, t), rawget(t, 1), #rawset(t, 1, 2))`,
	`print(math.floor(3.7), math.ceil(3.2), math.max(1, 5, 3), math.min(2, 0), math.abs(-3), math.sqrt(16), math.pi, math.huge, -math.huge, math.maxinteger, math.mininteger,
 math.tointeger(3.0), math.type(1), math.type(1.0), math.type("1"), math.fmod(7, 3), math.modf(3.7), math.ult(1, -1), 7 // 2, 7 % 3, 2 ^ 10, 7 / 2, 1 // 0.0, -7 // 2, -7 % 3, 5.5 // 1, 1e308 * 10, 0/0 ~= 0/0)`,
	`print(1 << 62, 1 << 63, 1 << 64, -1 >> 1, 3 & 5, 3 | 5, 3 ~ 5, ~0, 0xff, 0x7fffffffffffffff + 1, math.mininteger // -1, math.mininteger % -1, "10" + 5, "0x10" * 2, 10 .. 20, 1e2, 0x.8p1, 3 == 3.0, "a" < "b", 2^53 == 2^53 + 1)`,
	`local s = [[
long string]] local s2 = [==[with ]] inside]==] local s3 = "esc \a\b\f\n\r\t\v\\\"\'\65\x41\u{48}\z
      continued" --[[ block
comment ]] --[==[ another ]==] -- line comment
return #s, s2, s3, 'single', "\u{7FFFFFFF}", "\0embedded"`,
	`local a <const>, b <close> = 1, nil; local t = {} t.x, t.y = 1, 2 t.x, t.y = t.y, t.x; local function f() return 1, 2, 3 end local x, y, z, w = f() local p, q = (f()) t[#t + 1] = f() return x, y, z, w, p, q, {f()}, {f(), f()}, {(f())}`,
	`goto skip do print("not printed") end ::skip:: do local i = 0 ::top:: i = i + 1 if i < 3 then goto top end print(i) end`,
	`local obj = {n = 0} function obj:inc(d) self.n = self.n + (d or 1) return self end function obj.static(x) return x end obj:inc():inc(5) return obj.n, obj.static(3), obj:inc "x" == nil, #{obj:inc{}} `,
	`local function counter() local c = 0 return function() c = c + 1 return c end, function() return c end end local inc, get = counter() inc() inc() local fs = {} for i = 1, 3 do fs[i] = function() return i end end return get(), fs[1](), fs[3]()`,
	`local f = load("return 1 + 1") print(f()) print(load("syntax error here")) print(load(function() return nil end)) local env = {y = 5} print(load("return y", "chunk", "t", env)())
print(load(string.dump(function(a) return a * 2 end))(21)) print(pcall(load, "x", "n", "b")) print(dofile == nil, loadfile("nonexistent"))`,
	`print(tostring(nil), tostring(true), tostring(12), tostring(1.5), tostring("s"), tonumber("0x10"), tonumber("  12  "), tonumber("1e1"), tonumber("z", 36), tonumber("7", 8), tonumber("8", 8), tonumber(""), tonumber("1 2"), type(print), type(nil), type({}), type("x"), type(2), type(coroutine.create(print)))`,
	`local t = setmetatable({}, {__index = function(t, k) return k * 2 end, __newindex = function(t, k, v) rawset(t, k, v + 1) end, __len = function() return 42 end, __call = function(self, a) return a end, __pairs = function(t) return next, {a = 1}, nil end})
t[1] = 1 for k, v in pairs(t) do print(k, v) end return t[1], t[21], #t, t(7), getmetatable(t) ~= nil, getmetatable("").__index == string`,
	`local ok, e = pcall(function() local x <close> = setmetatable({}, {__close = function(_, err) print("closing", err) end}) error("boom") end) print(ok, e)
local function g() local a <close> = setmetatable({}, {__close = function() error("in close") end}) return 1 end print(pcall(g))`,
	`print(utf8.char(72, 228, 8364, 128512), utf8.len("häé"), utf8.codepoint("hä", 1, -1), utf8.offset("häé", 3), utf8.charpattern) for p, c in utf8.codes("hä") do print(p, c) end print(utf8.len("\xff"), pcall(utf8.codepoint, "\xff"))`,
	`print(string.pack("i4", 100):byte(1, -1)) print(string.unpack("<i4", "\1\0\0\0")) print(string.packsize("i4i8")) print(string.pack(">I2 z s1 d", 258, "zs", "p", 1.5):len()) print(pcall(string.pack, "i17", 1), pcall(string.unpack, "i4", "ab"))`,
	`print(os.time{year = 2020, month = 1, day = 1, hour = 12}, os.date("!%Y-%m-%d", 0), type(os.clock()), os.getenv("NOPE"), type(os.time()), os.date("*t", 0).year, pcall(os.date, "%Ez"), os.difftime(2, 1))`,
	`local f = io.tmpfile() f:write("line1\n", 2, "\n", 3.5, "\nrest") f:seek("set") print(f:read("l", "n", "n", "a")) print(f:seek("cur"), f:seek("end"), f:read(0), f:read("a")) f:close() print(io.type(f), io.type(io.stdout), io.type(1), pcall(f.read, f))
for l in io.lines("nonexistent-file") do end`,
	`io.write("a", 1, 2.5, "\n") io.stdout:write("x"):write("y\n") io.stdout:flush() io.stdout:setvbuf("no") print(io.open("no/such/file"), io.open(".", "zz")) local h = io.open("c04-src.tmp", "w") h:write("data") h:close() for l in io.lines("c04-src.tmp") do print(l) end os.remove("c04-src.tmp")`,
	`print(debug.traceback("msg", 1)) print(debug.getinfo(1, "Sl").currentline, debug.getinfo(print).what) local function u() return debug.getupvalue(u, 1) end print(u()) print(debug.gethook()) debug.sethook(function() end, "l") debug.sethook() print(debug.setmetatable(1, nil))`,
	`local ctx = runtime.callcontext({kill = {cpu = 1000}}, function() while true do end end) print(ctx.status, ctx.used.cpu <= 1000, ctx.kill.cpu) print(runtime.callcontext({kill = {memory = 10000}}, string.rep, "x", 100000).status)
print(runtime.callcontext({flags = "cpusafe memsafe iosafe"}, io.open, "x"), runtime.context().status, runtime.context().kill, runtime.context().used.cpu)
print(runtime.callcontext({stop = {cpu = 100}}, function() for i = 1, 1000 do if runtime.contextdue() then return i end end end))`,
	`local weak = setmetatable({}, {__mode = "kv"}) weak[{}] = {} collectgarbage() collectgarbage("collect") print(collectgarbage("count") > 0, collectgarbage("step"), collectgarbage("isrunning")) setmetatable({}, {__gc = function() print("gc") end}) collectgarbage()`,
	`local t = {} for i = 1, 100 do t[i] = i end for i = 1, 100, 2 do t[i] = nil end t[1.0] = "f" t[2^53] = 1 t[-0.0] = 2 t["k"] = 3 t[true] = 4 t[print] = 5 print(#t >= 0, t[1], t[0], next(t) ~= nil, pcall(rawset, t, nil, 1), pcall(rawset, t, 0/0, 1)) local big = {} for i = 1, 2000 do big[#big + 1] = i end return #big`,
	`local s = "" for i = 1, 50 do s = s .. i .. "," end print(#s, s:len(), ("x"):rep(100):len(), 1 .. 2, 1.5 .. "", -0.0 .. "", 1e100 .. "", math.mininteger .. "", 2^63 .. "")`,
	`print((2^53 + 1) % 2, 7 // 0.0, -7 // 0.0, 0.0 / 0.0 ~= 0.0 / 0.0, 1 < 1.5, 1 <= 1.0, "a" <= "a", pcall(function() return 1 < "2" end), pcall(function() return {} < {} end), pcall(function() return 1 // 0 end), pcall(function() return 1 % 0 end), 3 | 0, pcall(function() return 1.5 | 0 end), pcall(function() return "a" | 0 end), math.maxinteger + 1 == math.mininteger, math.maxinteger * 2)`,
	`return (function(...) local a <const> = ... ; return (function(...) return select('#', ...), ... end)(a, ...) end)(1, nil, nil)`,
	`local function deep(n) if n == 0 then return 0 end return 1 + deep(n - 1) end local function tail(n, acc) if n == 0 then return acc end return tail(n - 1, acc + 1) end return deep(200), tail(10000, 0)`,
	`print(require == nil, package.path ~= nil, package.loaded.string == string, package.preload ~= nil, pcall(require, "no.such.module"), package.searchpath("nope", "./?.lua")) package.preload.mymod = function(name) return {name = name} end print(require("mymod").name, require("mymod") == package.loaded.mymod)`,
	`warn("@on") warn("hello", " ", "world") warn("@off") print(_VERSION, _G._G == _G, _ENV == _G) local _ENV = {print = print} x = 1 print(x, _ENV.x) `,
	`local a = {} a.b = {} a.b.c = {} a.b.c.d = function(self, x) return x end return a.b.c:d(1), a["b"]["c"].d(nil, 2), (a.b).c, #a, -2 ^ 2, not nil == true, 1 .. 2 .. 3, 2 ^ 3 ^ 2, 1 + 2 * 3 - 4 / 2, (1 + 2) * 3, "a" .. "b" == "ab" and 1 or 2, nil or false, false and error("x"), 1 and 2, not 1 == nil`,
	`local x = 5 if x > 3 then x = 1 elseif x > 2 then x = 2 elseif x > 1 then x = 3 else x = 4 end while x < 3 do x = x + 1 if x == 2 then goto out end end ::out:: repeat x = x + 1 until x > 10 for _ = 1, 0 do error("never") end return x`,
	`local t = table.pack(string.byte("hello", 1, -1)) local u = {table.unpack(t, 1, t.n)} print(select("#", table.unpack({}, 1, 3)), pcall(table.unpack, {}, 1, 1e8), pcall(string.rep, "x", 1e10), pcall(table.concat, {1, {}, 3}), pcall(table.insert, {}, 5, 1), pcall(setmetatable, 1, {}), pcall(ipairs), pcall(next, {}, "nokey"))`,
	`local co = coroutine.wrap(function(...) local args = {...} local ok, err = pcall(function() coroutine.yield(#args) error("in co") end) coroutine.yield(err) return "done" end) print(co(1, 2, 3), co(), co()) print(pcall(co))
local c2 = coroutine.create(function() local x <close> = setmetatable({}, {__close = function() print("co closed") end}) coroutine.yield() end) coroutine.resume(c2) print(coroutine.close(c2), coroutine.status(c2), coroutine.close(coroutine.create(print)))`,
	`local r = {} for w in string.gmatch("one two  three", "%a+") do r[#r + 1] = w end local n = 0 for k, v in string.gmatch("a=1, b=2", "(%w+)=(%w+)") do n = n + tonumber(v) end print(#r, n, ("x y"):gsub("(%w)", function(c) return c:upper() end), ("abc"):gsub(".", {a = 1, b = true, c = false}), pcall(string.gsub, "x", "(", ""), pcall(string.find, "x", "%"), pcall(string.rep), pcall(("x").rep, "x", -1))`,
	`#!/usr/bin/lua shebang line
return 1`,
	"\xef\xbb\xbfreturn 'bom'",
	`return 0x10, 0xA.8p0, 0X1P+2, 1e-2, 1E+2, .5, 5., 3e0, 0xffffffffffffffff, 9223372036854775807, 9223372036854775808, 1//1, 1--[[c]]+1, 0x.1, 1e308*10, 123456789012345678901234567890`,
}

var vocabulary = []string{
	"and", "break", "do", "else", "elseif", "end", "false", "for", "function", "goto", "if", "in", "local", "nil", "not", "or", "repeat", "return", "then", "true", "until", "while",
	"+", "-", "*", "/", "%", "^", "#", "&", "~", "|", "<<", ">>", "//", "==", "~=", "<=", ">=", "<", ">", "=", "(", ")", "{", "}", "[", "]", "::", ";", ":", ",", ".", "..", "...",
	"<close>", "<const>", "<", "close", "const", "x", "y", "_", "_ENV", "self", "a.b", "t[1]", "f()", "f{}", `f""`, "t:m()",
	"0", "1", "-1", "255", "256", "65536", "2147483648", "9223372036854775807", "9223372036854775808", "18446744073709551616", "0x", "0x7fffffffffffffff", "0xffffffffffffffffff",
	"1e", "1e+", "1e999", "1e-999", "0x1p", "0x1p-9999", "0x.p1", ".5", "5.", "..5", "3..2", "1.2.3", "0xg", "08", "1_0", "1f",
	`""`, `"a"`, `"\`, `"\"`, `"\x`, `"\xg0"`, `"\u{`, `"\u{7FFFFFFF}"`, `"\u{80000000}"`, `"\u{}"`, `"\z`, `"\999"`, `"\256"`, `"\0"`, `"\q"`, "\"\n\"", "'", "''", `'\''`,
	"[[", "]]", "[[]]", "[==[", "]==]", "[==[]==]", "[=[]]]=]", "[=", "[==", "--", "--[[", "--[==[", "--]]", "#!", "\\", "`", "$", "@", "?", "!", "\x00", "\xff", "\xef\xbb\xbf", "\r", "\n", "\r\n", "\t", "\v", "\f", " ",
	"print", "pcall", "error", "select", "setmetatable", "coroutine.wrap", "coroutine.yield", "string.rep", "string.format", "table.unpack", "load", "tostring", "math.maxinteger", "runtime.callcontext", "collectgarbage",
	"function() end", "function(...) return ... end", "{}", "{...}", "(...)", "::l::", "goto l", "goto continue", "break", "return", "return ...", "local x <close> = nil", "local function f() end",
	"for i=1,3 do", "for k,v in pairs(t) do", "while true do", "repeat", "until false", "if x then", "elseif y then", "else", "end end", "do", "= =", "and or", "not not", "- -", "~ ~", "# #",
}

type corpus struct {
	seeds []string
	names []string
}

// loadCorpus reads /repo's *.lua files (at run time, so the corpus follows the
// tree) and appends the snippets.
func loadCorpus() *corpus {
	co := &corpus{}
	root := os.Getenv("VERIF_REPO")
	if root == "" {
		root = "/repo"
	}
	var paths []string
	filepath.Walk(root, func(p string, info os.FileInfo, err error) error {
		if err != nil {
			return nil
		}
		if info.IsDir() && (info.Name() == ".git") {
			return filepath.SkipDir
		}
		if !info.IsDir() && strings.HasSuffix(p, ".lua") {
			paths = append(paths, p)
		}
		return nil
	})
	sort.Strings(paths)
	for _, p := range paths {
		b, err := os.ReadFile(p)
		if err != nil || len(b) == 0 {
			continue
		}
		co.seeds = append(co.seeds, string(b))
		co.names = append(co.names, strings.TrimPrefix(p, root+"/"))
	}
	for i, s := range snippets {
		co.seeds = append(co.seeds, s)
		co.names = append(co.names, fmt.Sprintf("snippet%d", i))
	}
	return co
}

// tokenize splits Lua-ish text into tokens (words, numerals, strings, comments,
// operators, runs of blanks); the concatenation of the tokens is the text.
func tokenize(s string) []string {
	var toks []string
	isWord := func(b byte) bool {
		return b == '_' || b >= '0' && b <= '9' || b >= 'a' && b <= 'z' || b >= 'A' && b <= 'Z' || b >= 0x80
	}
	longBracket := func(i int) int { // returns the end of a long bracket starting at s[i]=='[' or -1
		j := i + 1
		for j < len(s) && s[j] == '=' {
			j++
		}
		if j >= len(s) || s[j] != '[' {
			return -1
		}
		closer := "]" + strings.Repeat("=", j-i-1) + "]"
		k := strings.Index(s[j+1:], closer)
		if k < 0 {
			return len(s)
		}
		return j + 1 + k + len(closer)
	}
	i := 0
	for i < len(s) {
		b := s[i]
		j := i + 1
		switch {
		case b == ' ' || b == '\t' || b == '\n' || b == '\r':
			for j < len(s) && (s[j] == ' ' || s[j] == '\t' || s[j] == '\n' || s[j] == '\r') {
				j++
			}
		case isWord(b):
			for j < len(s) && (isWord(s[j]) || s[j] == '.' && b >= '0' && b <= '9') {
				j++
			}
		case b == '"' || b == '\'':
			for j < len(s) && s[j] != b && s[j] != '\n' {
				if s[j] == '\\' {
					j++
				}
				j++
			}
			if j < len(s) {
				j++
			}
			if j > len(s) {
				j = len(s)
			}
		case b == '-' && j < len(s) && s[j] == '-':
			if j+1 < len(s) && s[j+1] == '[' {
				if e := longBracket(j + 1); e >= 0 {
					j = e
					break
				}
			}
			for j < len(s) && s[j] != '\n' {
				j++
			}
		case b == '[':
			if e := longBracket(i); e >= 0 {
				j = e
			}
		default:
			for _, op := range []string{"...", "..", "==", "~=", "<=", ">=", "<<", ">>", "//", "::"} {
				if strings.HasPrefix(s[i:], op) {
					j = i + len(op)
					break
				}
			}
		}
		toks = append(toks, s[i:j])
		i = j
	}
	return toks
}

func isBlank(t string) bool { return strings.TrimSpace(t) == "" }

type srcGen struct {
	co *corpus
	r  *rand.Rand
}

func (g *srcGen) vocab() string { return vocabulary[g.r.Intn(len(vocabulary))] }

func (g *srcGen) seed() (string, string) {
	i := g.r.Intn(len(g.co.seeds))
	s := g.co.seeds[i]
	// large files: work on a window most of the time - a run of paragraphs
	// (the test files separate their self-contained do...end blocks with blank
	// lines), sometimes a run of raw lines
	if len(s) > 1500 && g.r.Intn(5) != 0 {
		if paras := strings.Split(s, "\n\n"); len(paras) > 3 && g.r.Intn(4) != 0 {
			n := 1 + g.r.Intn(4)
			st := g.r.Intn(len(paras) - n + 1)
			s = strings.Join(paras[st:st+n], "\n\n") + "\n"
		} else {
			lines := strings.SplitAfter(s, "\n")
			n := 5 + g.r.Intn(60)
			if n < len(lines) {
				st := g.r.Intn(len(lines) - n)
				s = strings.Join(lines[st:st+n], "")
			}
		}
	}
	return s, g.co.names[i]
}

// rng returns a random sub-range [a,b) of length at most maxLen.
func (g *srcGen) rng(n, maxLen int) (int, int) {
	if n == 0 {
		return 0, 0
	}
	a := g.r.Intn(n)
	l := 1 + g.r.Intn(maxLen)
	if g.r.Intn(3) == 0 {
		l = 1
	}
	b := a + l
	if b > n {
		b = n
	}
	return a, b
}

func (g *srcGen) mutateBytes(s string) (string, string) {
	b := []byte(s)
	n := len(b)
	switch g.r.Intn(8) {
	case 0:
		i, j := g.rng(n, 40)
		return string(append(b[:i:i], b[j:]...)), "byte-delete"
	case 1:
		i, j := g.rng(n, 40)
		out := append([]byte{}, b[:j]...)
		out = append(out, b[i:j]...)
		return string(append(out, b[j:]...)), "byte-duplicate"
	case 2:
		if n < 4 {
			return s + s, "byte-duplicate"
		}
		i, j := g.rng(n/2, 20)
		k, l := g.rng(n-n/2, 20)
		k, l = k+n/2, l+n/2
		out := append([]byte{}, b[:i]...)
		out = append(out, b[k:l]...)
		out = append(out, b[j:k]...)
		out = append(out, b[i:j]...)
		return string(append(out, b[l:]...)), "byte-swap"
	case 3:
		o, _ := g.seed()
		i, j := g.rng(len(o), 200)
		p := 0
		if n > 0 {
			p = g.r.Intn(n + 1)
		}
		out := append([]byte{}, b[:p]...)
		out = append(out, o[i:j]...)
		return string(append(out, b[p:]...)), "byte-splice"
	case 4:
		if n == 0 {
			return s, "byte-truncate"
		}
		return string(b[:g.r.Intn(n)]), "byte-truncate"
	case 5:
		if n == 0 {
			return "\x00", "byte-replace"
		}
		out := append([]byte{}, b...)
		for k := 1 + g.r.Intn(3); k > 0; k-- {
			out[g.r.Intn(n)] = byte(g.r.Intn(256))
		}
		return string(out), "byte-replace"
	case 6:
		p := 0
		if n > 0 {
			p = g.r.Intn(n + 1)
		}
		out := append([]byte{}, b[:p]...)
		out = append(out, byte(g.r.Intn(256)))
		return string(append(out, b[p:]...)), "byte-insert"
	default:
		p := 0
		if n > 0 {
			p = g.r.Intn(n + 1)
		}
		return s[:p] + g.vocab() + s[p:], "byte-insert-token"
	}
}

func (g *srcGen) mutateTokens(s string) (string, string) {
	toks := tokenize(s)
	// indices of the non-blank tokens
	var idx []int
	for i, t := range toks {
		if !isBlank(t) {
			idx = append(idx, i)
		}
	}
	if len(idx) < 2 {
		return s + " " + g.vocab(), "tok-insert"
	}
	pick := func() int { return idx[g.r.Intn(len(idx))] }
	kind := ""
	switch g.r.Intn(7) {
	case 0:
		i := g.r.Intn(len(idx))
		j := i + 1 + g.r.Intn(4)
		if j > len(idx) {
			j = len(idx)
		}
		for _, k := range idx[i:j] {
			toks[k] = ""
		}
		kind = "tok-delete"
	case 1:
		i := g.r.Intn(len(idx))
		j := i + 1 + g.r.Intn(6)
		if j > len(idx) {
			j = len(idx)
		}
		seg := strings.Join(toks[idx[i]:idx[j-1]+1], "")
		toks[idx[j-1]] += " " + seg
		kind = "tok-duplicate"
	case 2:
		i, j := pick(), pick()
		toks[i], toks[j] = toks[j], toks[i]
		kind = "tok-swap"
	case 3:
		toks[pick()] = g.vocab()
		kind = "tok-replace-vocab"
	case 4:
		i := pick()
		toks[i] = toks[i] + " " + g.vocab() + " "
		kind = "tok-insert-vocab"
	case 5:
		o, _ := g.seed()
		ot := tokenize(o)
		if len(ot) > 0 {
			a := g.r.Intn(len(ot))
			b := a + 1 + g.r.Intn(30)
			if b > len(ot) {
				b = len(ot)
			}
			i := pick()
			toks[i] = toks[i] + " " + strings.Join(ot[a:b], "") + " "
		}
		kind = "tok-splice"
	default:
		// truncate at a token boundary
		toks = toks[:pick()]
		kind = "tok-truncate"
	}
	return strings.Join(toks, ""), kind
}

// sameClass returns a token of the same lexical class as t (numeral, string,
// name, operator), so that the mutant is likely to stay syntactically valid
// and reach the compiler back end and the VM.
func (g *srcGen) sameClass(t string) string {
	pick := func(xs ...string) string { return xs[g.r.Intn(len(xs))] }
	switch {
	case t == "":
		return t
	case t[0] >= '0' && t[0] <= '9':
		return pick("0", "1", "-1", "255", "256", "65536", "2147483648", "9223372036854775807", "9223372036854775808", "0x7fffffffffffffff",
			"0xffffffffffffffff", "1e308", "1e309", "0.5", "5e-324", "0x1p-1074", "1e15", "2^53", "(0/0)", "(1/0)", "(-1/0)", "math.mininteger", "-0.0", "3", "10", "100", "1000", "100000")
	case t[0] == '"' || t[0] == '\'':
		return pick(`""`, `"a"`, `"%"`, `"%b"`, `"["`, `"(()"`, `"\0"`, `"\xff\xfe"`, `"10"`, `"0x10"`, `" 1 "`, `"%s%d"`, `"%5.2f"`, `"^(a*)*$"`, `"__index"`, `"__gc"`, `"__close"`, `"k"`, `"n"`,
			`("x"):rep(1000)`, `("x"):rep(100000)`, `"\u{7FFFFFFF}"`, `[[
]]`, `"abc"`)
	case t == "true" || t == "false" || t == "nil":
		return pick("true", "false", "nil", "0", `""`, "{}")
	case t == "and" || t == "or":
		return pick("and", "or")
	case t == "break" || t == "return":
		return pick("break", "return", "do return end", "goto continue")
	case t == "pairs" || t == "ipairs" || t == "next":
		return pick("pairs", "ipairs", "next", "coroutine.wrap", "string.gmatch")
	case t == "pcall" || t == "xpcall" || t == "print" || t == "error" || t == "assert" || t == "select" || t == "tostring" || t == "type":
		return pick("pcall", "print", "error", "assert", "select", "tostring", "type", "coroutine.wrap", "coroutine.resume", "setmetatable", "rawset", "string.rep", "table.unpack", "load", "collectgarbage", "runtime.callcontext")
	case (t[0] >= 'a' && t[0] <= 'z' || t[0] >= 'A' && t[0] <= 'Z' || t[0] == '_') && !isKeyword(t):
		return pick("x", "t", "f", "a", "b", "i", "s", "self", "_ENV", "_G", "string", "table", "math", "coroutine", "print", t+"1", "nil")
	}
	for _, cl := range [][]string{
		{"+", "-", "*", "/", "//", "%", "^", "..", "&", "|", "~", "<<", ">>", "==", "~=", "<", "<=", ">", ">=", "and", "or"},
		{"#", "-", "~", "not"},
		{".", ":"},
		{",", ";"},
	} {
		for _, o := range cl {
			if o == t {
				return pick(cl...)
			}
		}
	}
	return t
}

var keywords = map[string]bool{"and": true, "break": true, "do": true, "else": true, "elseif": true, "end": true, "false": true, "for": true, "function": true, "goto": true,
	"if": true, "in": true, "local": true, "nil": true, "not": true, "or": true, "repeat": true, "return": true, "then": true, "true": true, "until": true, "while": true}

func isKeyword(t string) bool { return keywords[t] }

// mutateLines works on whole lines: the repository's test files are mostly one
// statement per line, so the mutant often still parses.
func (g *srcGen) mutateLines(s string) (string, string) {
	lines := strings.SplitAfter(s, "\n")
	n := len(lines)
	if n < 3 {
		return g.mutateTokens(s)
	}
	switch g.r.Intn(5) {
	case 0:
		i := g.r.Intn(n)
		return strings.Join(append(lines[:i:i], lines[i+1:]...), ""), "line-delete"
	case 1:
		i := g.r.Intn(n)
		k := 1 + g.r.Intn(50)
		return strings.Join(lines[:i+1], "") + strings.Repeat(lines[i], k) + strings.Join(lines[i+1:], ""), "line-duplicate"
	case 2:
		i, j := g.r.Intn(n), g.r.Intn(n)
		lines[i], lines[j] = lines[j], lines[i]
		return strings.Join(lines, ""), "line-swap"
	case 3:
		o, _ := g.seed()
		ol := strings.SplitAfter(o, "\n")
		a := g.r.Intn(len(ol))
		b := a + 1 + g.r.Intn(8)
		if b > len(ol) {
			b = len(ol)
		}
		i := g.r.Intn(n)
		return strings.Join(lines[:i], "") + strings.Join(ol[a:b], "") + "\n" + strings.Join(lines[i:], ""), "line-splice"
	default:
		// wrap a run of lines into a construct
		i := g.r.Intn(n)
		j := i + 1 + g.r.Intn(6)
		if j > n {
			j = n
		}
		body := strings.Join(lines[i:j], "")
		wrap := [][2]string{
			{"do\n", "\nend\n"}, {"for _ = 1, 3 do\n", "\nend\n"}, {"while true do\n", "\nbreak end\n"}, {"repeat\n", "\nuntil true\n"},
			{"pcall(function(...)\n", "\nend)\n"}, {"coroutine.wrap(function(...)\n", "\nend)()\n"}, {"if x then\n", "\nelse\nend\n"},
			{"local function ff(...)\n", "\nend ff() ff(ff)\n"}, {"runtime.callcontext({kill={cpu=5000, memory=100000}}, function()\n", "\nend)\n"},
			{"do local cc <close> = setmetatable({}, {__close = function()\n", "\nend}) end\n"}, {"setmetatable({}, {__gc = function()\n", "\nend}) collectgarbage()\n"},
			{"for i = 1, 300 do\n", "\nend\n"},
		}[g.r.Intn(12)]
		return strings.Join(lines[:i], "") + wrap[0] + body + wrap[1] + strings.Join(lines[j:], ""), "line-wrap"
	}
}

func (g *srcGen) next() (src, kind string) {
	switch p := g.r.Intn(100); {
	case p < 4:
		n := g.r.Intn(200)
		b := make([]byte, n)
		for i := range b {
			b[i] = byte(g.r.Intn(256))
		}
		return string(b), "random-bytes"
	case p < 7:
		// printable random bytes reach deeper into the scanner states
		const alpha = "abcxyz019 \n\t\"'[]=-.<>~()+*/%^#&|{}:;,\\eExX_pP"
		n := g.r.Intn(120)
		b := make([]byte, n)
		for i := range b {
			b[i] = alpha[g.r.Intn(len(alpha))]
		}
		return string(b), "random-printable"
	case p < 13:
		n := 1 + g.r.Intn(60)
		parts := make([]string, n)
		for i := range parts {
			parts[i] = g.vocab()
		}
		return strings.Join(parts, " "), "random-tokens"
	case p < 15:
		s, _ := g.seed()
		return s, "seed-unchanged"
	}
	s, _ := g.seed()
	var kinds []string
	nm := 1
	if g.r.Intn(3) == 0 {
		nm = 2 + g.r.Intn(3)
	}
	for k := nm; k > 0; k-- {
		var kd string
		switch g.r.Intn(10) {
		case 0, 1:
			s, kd = g.mutateBytes(s)
		case 2, 3, 4:
			s, kd = g.mutateTokens(s)
		case 5, 6:
			s, kd = g.mutateLines(s)
		default:
			// class-preserving replacement of 1-3 tokens
			toks := tokenize(s)
			for r := 1 + g.r.Intn(3); r > 0 && len(toks) > 0; r-- {
				i := g.r.Intn(len(toks))
				for tries := 0; tries < 8 && (isBlank(toks[i]) || strings.HasPrefix(toks[i], "--")); tries++ {
					i = g.r.Intn(len(toks))
				}
				toks[i] = g.sameClass(toks[i])
			}
			s, kd = strings.Join(toks, ""), "tok-replace-same-class"
		}
		kinds = append(kinds, kd)
	}
	if len(s) > 1<<18 {
		s = s[:1<<18]
	}
	return s, kinds[len(kinds)-1]
}

func runSource(x *exec) {
	c := x.c
	co := loadCorpus()
	c.Feature("corpus-seeds", int64(len(co.seeds)))
	if len(co.seeds) < len(snippets)+10 {
		c.Inconclusive("the repository's *.lua files could not be read; only the snippets were mutated")
	}
	g := &srcGen{co: co, r: c.Rand("source")}
	total := x.slice(c.Pick(20000, 1000000))
	if x.variant != "plain" && c.Tier == vp.Thorough {
		total /= 10 // the sanitizer builds are 3-10x slower; a tenth of the inputs keeps the tier within its time budget
	}
	n := total / c.NB
	for i := 0; i < n; i++ {
		src, kind := g.next()
		x.sourceCase(fmt.Sprintf("src %s #%d", kind, i), kind, src, i%7 == 3)
		if i%500 == 499 {
			c.Flush(false)
		}
	}
	// every seed unchanged, once
	for i, s := range co.seeds {
		if c.Mine(i) {
			x.sourceCase("src seed "+co.names[i], "seed-unchanged", s, false)
		}
	}
}

// sourceCase compiles one input and runs it if it compiles.  viaLoad
// additionally feeds the same bytes to load() inside the limited context (the
// compiler running under a quota).
func (x *exec) sourceCase(id, kind, src string, viaLoad bool) {
	c := x.c
	x.begin(id, src)
	c.Eval(1)
	s := x.newSess(true)
	sandbox(s)
	res := x.compileAndRun(s, "src", src, srcLimits)
	x.judgeSource(id, kind, src, res)
	if viaLoad && res.kind != kPanic && res.kind != kHang {
		c.Eval(1)
		s.SetGlobal("SRC", rtString(src))
		r2 := x.compileAndRun(s, "viaload", `local f, e = load(SRC, "=loaded") if f then return pcall(f) end return e`, srcLimits)
		if r2.kind == kPanic {
			c.Violation("panic", "source load() "+panicSig(r2.panicMsg, r2.stack),
				fmt.Sprintf("load() of the input inside a limited context panicked: %s\n%s", r2.panicMsg, r2.stack), src)
		}
		c.Feature("load/"+r2.kind, 1)
		// and the binary round trip: the compiled chunk is dumped, reloaded and run
		if r2.kind != kHang {
			c.Eval(1)
			r3 := x.compileAndRun(s, "viadump", `local f = load(SRC, "=loaded") if not f then return "no chunk" end local g, e = load(string.dump(f), "=reloaded", "b") if g then return pcall(g) end return e`, srcLimits)
			if r3.kind == kPanic {
				c.Violation("panic", "source dump/load "+panicSig(r3.panicMsg, r3.stack),
					fmt.Sprintf("load(string.dump(f)) of the input's chunk, or running it, panicked inside a limited context: %s\n%s", r3.panicMsg, r3.stack), src)
			}
			c.Feature("dumpload/"+r3.kind, 1)
		}
	}
	if res.kind != kHang {
		x.closeSess(s)
	}
	if strings.Contains(src, "collectgarbage") {
		debug.SetGCPercent(100) // collectgarbage("stop") switches the Go collector off process-wide
	}
}

func (x *exec) judgeSource(id, kind, src string, res result) {
	c := x.c
	c.Feature("kind/"+kind+"/"+res.kind, 1)
	c.Feature("outcome/"+res.phase+"-"+res.kind, 1)
	switch res.kind {
	case kPanic:
		c.Violation("panic", "source "+res.phase+" "+panicSig(res.panicMsg, res.stack),
			fmt.Sprintf("a Go panic escaped the %s entry point: %s\n%s", res.phase, res.panicMsg, res.stack), src)
		return
	case kHang:
		return
	case kSyntaxError:
		return
	}
	c.NonTrivial(vp.Hash("source", src))
	if x.wantSample() && res.kind == kError && len(src) < 400 {
		x.sample(map[string]interface{}{"stage": "source", "mutation": kind, "input": src, "outcome": res.kind, "error": res.errMsg})
	}
}
