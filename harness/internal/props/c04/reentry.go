package c04

import (
	"fmt"
	"strings"
	"time"

	rt "github.com/arnodel/golua/runtime"

	"verif/internal/vp"
)

// ---------------------------------------------------------------------------
// stage "reentry": recursion through every Go re-entry point
//
// Each program recurses without bound (or to a depth D far beyond any
// sensible native stack) through one mechanism that makes the interpreter
// re-enter itself from Go: a metamethod, a protected call, a library callback,
// a coroutine, a finaliser.  Accepted outcomes: a Lua error (e.g. "stack
// overflow"), a quota kill, or a value.  Refuting: a Go panic escaping, or the
// child dying (Go's "fatal error: stack overflow" when the goroutine stack
// reaches its 1 GB cap).  For the depth-bounded variants a value must be the
// closed-form one.

type reentryProg struct {
	name string
	src  string // may contain DEPTH
	want string // expected encoding when the outcome is a value ("" = any)
}

// binary / unary metamethods: event name and the expression that triggers it
var metaOps = []struct{ ev, expr string }{
	{"__add", "a + b"}, {"__sub", "a - b"}, {"__mul", "a * b"}, {"__div", "a / b"}, {"__mod", "a % b"}, {"__pow", "a ^ b"},
	{"__idiv", "a // b"}, {"__band", "a & b"}, {"__bor", "a | b"}, {"__bxor", "a ~ b"}, {"__shl", "a << b"}, {"__shr", "a >> b"},
	{"__concat", "a .. b"}, {"__eq", "a == b"}, {"__lt", "a < b"}, {"__le", "a <= b"},
	{"__unm", "-a"}, {"__bnot", "~a"}, {"__len", "#a"},
}

func reentryProgs() []reentryProg {
	var ps []reentryProg
	add := func(name, src, want string) { ps = append(ps, reentryProg{name, src, want}) }
	for _, m := range metaOps {
		add("meta"+m.ev, fmt.Sprintf(`local mt = {}
local a, b = setmetatable({}, mt), setmetatable({}, mt)
mt.%s = function(a, b) local r = %s return r end
return %s`, m.ev, m.expr, m.expr), "")
	}
	add("meta__add-bounded", `local mt, d = {}, 0
local a, b = setmetatable({}, mt), setmetatable({}, mt)
mt.__add = function(a, b) d = d + 1 if d >= DEPTH then return d end local r = a + b return r end
return a + b`, "i:DEPTH")
	add("meta__index-fn", `local mt = {}
mt.__index = function(t, k) local v = t[k] return v end
return setmetatable({}, mt).x`, "")
	add("meta__index-fn-bounded", `local mt, d = {}, 0
mt.__index = function(t, k) d = d + 1 if d >= DEPTH then return d end local v = t[k] return v end
return setmetatable({}, mt).x`, "i:DEPTH")
	add("meta__index-fn-tailcall", `local mt = {}
mt.__index = function(t, k) return t[k] end
return setmetatable({}, mt).x`, "")
	add("meta__newindex-fn", `local mt = {}
mt.__newindex = function(t, k, v) t[k] = v end
setmetatable({}, mt).x = 1`, "")
	add("meta__index-string", `getmetatable("").__index = function(s, k) local v = s[k] return v end
return ("x").y`, "")
	add("meta__index-env", `setmetatable(_ENV, {__index = function(t, k) local v = undefined_global_c04 return v end})
return another_undefined_global`, "")
	add("meta__index-table-chain", `local t = {}
for i = 1, DEPTH do t = setmetatable({}, {__index = t}) end
return t.x`, "n")
	add("meta__newindex-table-chain", `local t = {}
for i = 1, DEPTH do t = setmetatable({}, {__newindex = t}) end
t.x = 1 return rawget(t, "x")`, "n")
	add("meta__call-fn", `local mt = {}
mt.__call = function(self, n) local r = self(n + 1) return r end
return setmetatable({}, mt)(1)`, "")
	add("meta__call-table-chain", `local f = function() return 7 end
for i = 1, DEPTH do f = setmetatable({}, {__call = f}) end
return f()`, "i:7")
	// cycles of __call metamethods: no Lua instruction runs while the chain is followed
	add("meta__call-self-cycle", `local t = setmetatable({}, {}) getmetatable(t).__call = t return t(1)`, "")
	add("meta__call-two-cycle", `local a, b = setmetatable({}, {}), setmetatable({}, {}) getmetatable(a).__call = b getmetatable(b).__call = a return a(1)`, "")
	add("meta__call-cycle-in-pcall", `local t = setmetatable({}, {}) getmetatable(t).__call = t local ok, e = pcall(t, 1) if ok then return 1 end error(e)`, "")
	add("meta__call-cycle-as-callbacks", `local t = setmetatable({}, {}) getmetatable(t).__call = t
pcall(table.sort, {3, 1, 2}, t) pcall(string.gsub, "abc", "%w", function(c) return t(c) end) pcall(xpcall, error, t) pcall(coroutine.wrap(t)) pcall(load, t)
pcall(function() local x <close> = setmetatable({}, {__close = t}) end) pcall(function() return setmetatable({}, {__index = function(_, k) return t(k) end}).x end)
for _ in pairs(setmetatable({}, {__pairs = t})) do end`, "")
	add("meta__tostring", `local mt = {}
mt.__tostring = function(s) return tostring(s) end
return tostring(setmetatable({}, mt))`, "")
	add("meta__tostring-print", `local mt = {}
mt.__tostring = function(s) print(s) return "" end
print(setmetatable({}, mt))`, "")
	add("meta__tostring-format", `local mt = {}
mt.__tostring = function(s) return string.format("%s", s) end
return string.format("%s", setmetatable({}, mt))`, "")
	add("meta__name-error", `local mt = {}
mt.__index = function(t, k) error(t) end
mt.__tostring = function(s) return s.x end
return tostring(setmetatable({}, mt))`, "")
	add("meta__close", `local function f(n)
  local x <close> = setmetatable({}, {__close = function() f(n + 1) end})
end
f(1)`, "")
	add("meta__close-error", `local function f(n)
  local x <close> = setmetatable({}, {__close = function(_, e) f(n + 1) end})
  error("e" .. n)
end
f(1)`, "")
	add("meta__gc", `local function mk()
  setmetatable({}, {__gc = function() mk() collectgarbage() end})
end
mk() collectgarbage() collectgarbage()`, "")
	add("meta__pairs", `local mt = {}
mt.__pairs = function(t) return pairs(t) end
return pairs(setmetatable({}, mt))`, "")
	add("meta__len-tableinsert", `local mt = {}
mt.__len = function(t) table.insert(t, 1) return 0 end
table.insert(setmetatable({}, mt), 1)`, "")
	add("meta__lt-sort", `local mt = {}
mt.__lt = function(a, b) table.sort({a, b}) return false end
table.sort({setmetatable({}, mt), setmetatable({}, mt)})`, "")
	add("meta__eq-in-coroutine", `local mt = {}
local a, b = setmetatable({}, mt), setmetatable({}, mt)
mt.__eq = function(a, b) local r = a == b return r end
return coroutine.wrap(function() return a == b end)()`, "")
	add("pcall", `local function f() local ok, e = pcall(f) return ok, e end
return f()`, "")
	add("pcall-tail", `local function f() return pcall(f) end
return f()`, "")
	add("pcall-bounded", `local function f(n) if n == 0 then return 0 end local ok, v = pcall(f, n - 1) return v + 1 end
return f(DEPTH)`, "i:DEPTH")
	add("xpcall", `local function h(m) return m end
local function f() local ok, e = xpcall(f, h) return ok, e end
return f()`, "")
	add("xpcall-handler-raises", `local function h(m) error(m) end
return xpcall(error, h, "x")`, "")
	add("xpcall-handler-recurses", `local function h(m) local ok, e = xpcall(error, h, m) return e end
return xpcall(error, h, "x")`, "")
	add("error-rethrow", `local function f(n) local ok, e = pcall(f, n + 1) error(e, 0) end
return pcall(f, 1)`, "")
	add("sort-comparator", `local function cmp(a, b) table.sort({3, 2, 1}, cmp) return a < b end
table.sort({3, 2, 1}, cmp)`, "")
	add("gsub-callback", `local function cb(s) local r = string.gsub("a", "a", cb) return r end
return cb()`, "")
	add("gsub-table-index", `local t = setmetatable({}, {})
getmetatable(t).__index = function(_, k) local r = string.gsub("a", "a", t) return r end
return string.gsub("a", "a", t)`, "")
	add("gmatch-nested", `local function f(n) for w in string.gmatch("a b", "%a") do f(n + 1) end end
f(1)`, "")
	add("load-reader", `local function rd() load(rd) return nil end
return load(rd)`, "")
	add("load-chunk", `SRC = "local r = load(SRC)() return r"
return load(SRC)()`, "")
	add("load-chunk-tail", `SRC = "return load(SRC)()"
return load(SRC)()`, "")
	add("dofile-missing", `local function f() local ok, e = pcall(dofile, "no-such-file") return f() + 1 end
return f()`, "")
	add("require-preload", `package.preload.c04m = function() local m = require("c04m") return m end
return require("c04m")`, "")
	add("coroutine-wrap-nest", `local function f() local r = coroutine.wrap(f)() return r end
return f()`, "")
	add("coroutine-resume-nest", `local function f() local ok, e = coroutine.resume(coroutine.create(f)) return ok, e end
return f()`, "")
	add("coroutine-wrap-nest-bounded", `local function f(n) if n == 0 then return 0 end return coroutine.wrap(f)(n - 1) + 1 end
return f(DEPTH)`, "i:DEPTH")
	add("coroutine-close-nest", `local function f()
  local co = coroutine.create(function() local x <close> = setmetatable({}, {__close = f}) coroutine.yield() end)
  coroutine.resume(co)
  coroutine.close(co)
end
f()`, "")
	add("callcontext-nest", `local function f() local c, r = runtime.callcontext({kill = {cpu = 100000000}}, f) return r end
return f()`, "")
	add("ipairs-index", `local mt = {}
local t = setmetatable({}, mt)
mt.__index = function(_, i) for _, v in ipairs(t) do return v end end
for _, v in ipairs(t) do return v end`, "")
	add("unpack-index", `local mt = {}
local t = setmetatable({}, mt)
mt.__index = function(_, i) local r = table.unpack(t, 1, 1) return r end
return table.unpack(t, 1, 1)`, "")
	add("concat-index", `local mt = {}
local t = setmetatable({}, mt)
mt.__index = function(_, i) local r = table.concat(t, "", 1, 1) return r end
return table.concat(t, "", 1, 1)`, "")
	add("select-next-pairs", `local mt = {}
local t = setmetatable({}, mt)
mt.__pairs = function() for k in pairs(t) do end return next, {} end
for k in pairs(t) do end`, "")
	add("debug-hook", `local function h() local function g() end g() end
debug.sethook(h, "crl")
local function r(n) if n > 0 then return 1 + r(n - 1) end return 0 end
local v = r(1000) debug.sethook() return v`, "i:1000")
	add("debug-traceback-deep", `local function r(n) if n > 0 then return 1 + r(n - 1) end return #debug.traceback() end
return r(DEPTH) > 0`, "b:true")
	add("lua-recursion", `local function r(n) return 1 + r(n + 1) end
return r(1)`, "")
	add("lua-recursion-bounded", `local function r(n) if n == 0 then return 0 end return 1 + r(n - 1) end
return r(DEPTH)`, "i:DEPTH")
	add("lua-recursion-in-coroutine", `local mt = {}
mt.__index = function(t, k) local v = t[k] return v end
return coroutine.wrap(function() return setmetatable({}, mt).x end)()`, "")
	add("vararg-recursion", `local function f(...) return f(1, ...) end
return f()`, "")
	add("error-object-tostring", `local mt = {}
mt.__tostring = function(e) error(e) end
error(setmetatable({}, mt))`, "")
	return ps
}

type reentryLimits struct {
	name string
	def  rt.RuntimeContextDef
}

var (
	cfgStd    = reentryLimits{"cpu2e6-mem64M", runLimits}
	cfgSmall  = reentryLimits{"cpu3e5-mem64M", srcLimits}
	cfgTight  = reentryLimits{"cpu5e7-mem16M", rt.RuntimeContextDef{HardLimits: rt.RuntimeResources{Cpu: 50_000_000, Memory: 16 << 20}}}
	cfgWide   = reentryLimits{"cpu5e7-mem512M", rt.RuntimeContextDef{HardLimits: rt.RuntimeResources{Cpu: 50_000_000, Memory: 512 << 20}}}
	cfgWideQ  = reentryLimits{"cpu2e7-mem512M", rt.RuntimeContextDef{HardLimits: rt.RuntimeResources{Cpu: 20_000_000, Memory: 512 << 20}}}
	wideQuick = map[string]bool{"meta__add": true, "meta__index-fn": true, "meta__concat": true, "meta__close": true, "pcall": true, "gsub-callback": true,
		"meta__tostring": true, "sort-comparator": true}
)

var reentryDepths = []int{100, 10000, 100000, 1000000}

// configsFor lists the limit configurations a program runs under.  The quick
// tier uses the standard limits for every program plus a wide configuration
// (512 MB: room for ~10^6 levels) for a few; the sanitizer builds, which
// multiply real memory and time, use the small one.
func (x *exec) configsFor(p reentryProg) []reentryLimits {
	san := x.variant != "plain"
	if x.c.Tier == vp.Thorough {
		if san {
			return []reentryLimits{cfgStd, cfgTight}
		}
		return []reentryLimits{cfgStd, cfgTight, cfgWide}
	}
	if san {
		return []reentryLimits{cfgSmall}
	}
	if wideQuick[p.name] {
		return []reentryLimits{cfgStd, cfgWideQ}
	}
	return []reentryLimits{cfgStd}
}

// heavy programs create tens of thousands of nested coroutines (goroutines)
// before the quota stops them; the quick tier's sanitizer slice leaves them out.
var heavyProgs = map[string]bool{"coroutine-wrap-nest": true, "coroutine-resume-nest": true, "coroutine-wrap-nest-bounded": true, "coroutine-close-nest": true}

func runReentry(x *exec) {
	c := x.c
	x.caseWall = 150 * time.Second
	if c.Tier == vp.Thorough {
		x.caseWall = 600 * time.Second
	}
	k := 0
	for _, p := range reentryProgs() {
		depths := []int{0}
		if strings.Contains(p.src, "DEPTH") {
			depths = reentryDepths
		}
		if c.Tier == vp.Quick {
			if len(depths) > 1 {
				depths = []int{100, 100000}
			}
			if x.variant != "plain" {
				if heavyProgs[p.name] {
					continue
				}
				depths = depths[:1]
			}
		}
		for _, d := range depths {
			for _, cfg := range x.configsFor(p) {
				k++
				if !c.Mine(k) {
					continue
				}
				x.reentryCase(p, d, cfg)
				c.Flush(false)
			}
		}
	}
}

func (x *exec) reentryCase(p reentryProg, depth int, cfg reentryLimits) {
	c := x.c
	src := strings.ReplaceAll(p.src, "DEPTH", itoa(depth))
	want := strings.ReplaceAll(p.want, "DEPTH", itoa(depth))
	id := fmt.Sprintf("reentry %s D=%d %s", p.name, depth, cfg.name)
	x.begin(id, src)
	c.Eval(1)
	s := x.newSess(true)
	res := x.compileAndRun(s, "reentry", src, cfg.def)
	if res.kind != kHang {
		x.closeSess(s)
	}
	c.Feature("outcome/"+res.kind, 1)
	c.Feature("prog/"+p.name+"/"+res.kind, 1)
	sig := fmt.Sprintf("reentry %s D=%d %s", p.name, depth, cfg.name)
	switch res.kind {
	case kPanic:
		c.Violation("panic", sig+" "+res.phase+" "+panicSig(res.panicMsg, res.stack),
			fmt.Sprintf("%s: a Go panic escaped the %s entry point: %s\n%s", id, res.phase, res.panicMsg, res.stack), src)
		return
	case kHang:
		return
	case kSyntaxError, kCompileError:
		c.Violation("harness", sig+" does not compile", res.errMsg, src)
		return
	case kError:
		c.Feature("error/"+msgClass(strings.TrimPrefix(res.errMsg, "reentry:")), 1)
	case kOK:
		if want != "" && res.rets != want {
			c.Violation("wrong", sig+" wrong-value", fmt.Sprintf("%s returned %s; the manual gives %s", id, abbreviate(res.rets), want), src)
		}
	}
	c.NonTrivial(vp.Hash("reentry", x.variant, p.name, itoa(depth), cfg.name))
	if x.wantSample() && res.kind == kError {
		x.sample(map[string]interface{}{"stage": "reentry", "program": src, "limits": cfg.name, "outcome": res.kind, "error": res.errMsg})
	}
}
