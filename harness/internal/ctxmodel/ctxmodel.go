// Package ctxmodel is an executable reading of golua's documented contract for
// nested execution contexts (quotas.md, "Safe Execution Environments") and of
// property C07.  It is a plain stack machine written from the documentation,
// not from runtime/runtimecontextmanager.go:
//
//   - a limit of 0 means "unlimited";
//   - a new context's hard limit for cpu / memory is the smaller of what was
//     requested and what the parent has left (parent.hard - parent.used);
//   - its soft limit is the smallest of its hard limit, the parent's soft
//     limit and the requested soft limit ("soft limits cannot exceed hard
//     limits and cannot be increased from the parent's");
//   - its required flags are the parent's plus the requested ones plus
//     cpusafe / memsafe / timesafe for each requested hard limit;
//   - requiring n units succeeds when used+n stays below the hard limit (true
//     arithmetic, no wrap-around); otherwise the context is killed and
//     nothing is granted: "the program is required to terminate before the
//     limit is reached", hence used < kill at all times;
//   - a popped context charges everything it used to its parent;
//   - due <=> a stop was requested or used has reached a soft limit.
//
// What the documentation leaves open is modelled as "don't care": the used
// counter of a resource that has neither a hard nor a soft limit, the effect
// of ReleaseMem beyond "used goes down by at most n" (quotas.md: "if
// possible"), `due` of a context whose enclosing context had a stop requested
// before it was created or that was force-killed, all time (Millis) values
// except their order relations.
package ctxmodel

import (
	"fmt"
	"math"
)

// Res is a triple of resource amounts or limits.
type Res struct{ Cpu, Mem, Millis uint64 }

// Flags are the compliance flags, in the model's own encoding.
type Flags uint8

const (
	MemSafe Flags = 1 << iota
	CpuSafe
	IoSafe
	TimeSafe
)

func (f Flags) String() string {
	s := ""
	for i, n := range []string{"memsafe", "cpusafe", "iosafe", "timesafe"} {
		if f&(1<<uint(i)) != 0 {
			if s != "" {
				s += " "
			}
			s += n
		}
	}
	return "[" + s + "]"
}

type Status uint8

const (
	Live Status = iota
	Done
	Error
	Killed
)

func (s Status) String() string { return [...]string{"live", "done", "error", "killed"}[s] }

// Def is a context definition.
type Def struct {
	Hard, Soft Res
	Flags      Flags
}

// Expect says what must happen to the running code when an operation is applied.
type Expect uint8

const (
	NoKill   Expect = iota // the operation returns normally
	MustKill               // the context is terminated: the operation does not return (ContextTerminationError)
	MayKill                // the context is already dead: returning or terminating again are both fine
)

func (e Expect) String() string { return [...]string{"no-kill", "must-kill", "may-kill"}[e] }

// Ctx is one context of the stack.
type Ctx struct {
	Hard, Soft Res
	Used       Res // Cpu and Mem only
	Flags      Flags
	Status     Status
	SoftStop   bool // stop requested on this very context
	HardStop   bool // kill requested on this very context
	InhSoft    bool // an enclosing context had a stop requested when this one was created
	ByCall     bool // opened by CallContext (closed by the call's end) rather than by PushContext
	Def        Def  // what was requested
	// MemLo < Used.Mem after a ReleaseMem: any value in [MemLo, Used.Mem] is acceptable.
	MemLo     uint64
	memLoose  bool
	CpuOvf    bool // true sum left the uint64 range in a context without hard cpu limit
	MemOvf    bool
	parentMax Res // upper bounds for the Millis limits, checked and replaced by the observed values
	softMax   Res
	millisSet bool
	// HitLimit records that a limit (hard or soft) was reached in this context.
	HitLimit bool
}

func (c *Ctx) CareCpu() bool { return c.Hard.Cpu > 0 || c.Soft.Cpu > 0 }
func (c *Ctx) CareMem() bool { return c.Hard.Mem > 0 || c.Soft.Mem > 0 }
func (c *Ctx) Dead() bool    { return c.Status == Killed }

// DueWant returns the value `due` must have, and whether the contract fixes it.
func (c *Ctx) DueWant() (due, fixed bool) {
	reached := (c.Soft.Cpu > 0 && (c.Used.Cpu >= c.Soft.Cpu || c.CpuOvf)) || (c.Soft.Mem > 0 && (c.Used.Mem >= c.Soft.Mem || c.MemOvf))
	if c.memLoose && c.Soft.Mem > 0 && c.Used.Mem >= c.Soft.Mem && c.MemLo < c.Soft.Mem {
		// depends on how much of the release was honoured
		if !(c.SoftStop || (c.Soft.Cpu > 0 && c.Used.Cpu >= c.Soft.Cpu)) {
			return false, false
		}
	}
	if c.SoftStop || reached {
		return true, true
	}
	if c.HardStop || c.InhSoft {
		return false, false
	}
	return false, true
}

// Machine is the context stack; Stack[0] is the root (no limits, no flags).
type Machine struct {
	Stack []*Ctx
	// popped contexts are recycled: the pointer returned by Pop is valid until
	// the next Push or Pop
	free []*Ctx
	last *Ctx
}

func (m *Machine) alloc() *Ctx {
	if m.last != nil {
		m.free = append(m.free, m.last)
		m.last = nil
	}
	if n := len(m.free); n > 0 {
		c := m.free[n-1]
		m.free = m.free[:n-1]
		*c = Ctx{}
		return c
	}
	return &Ctx{}
}

// Reset empties the stack down to a fresh root.
func (m *Machine) Reset() {
	for len(m.Stack) > 1 {
		m.free = append(m.free, m.Stack[len(m.Stack)-1])
		m.Stack = m.Stack[:len(m.Stack)-1]
	}
	*m.Stack[0] = Ctx{}
}

func New() *Machine { return &Machine{Stack: []*Ctx{{}}} }

// NewWithRoot starts from a root context that has limits of its own (a
// runtime created inside a context).
func NewWithRoot(d Def) *Machine {
	m := New()
	m.Push(d, false)
	return m
}

func (m *Machine) Top() *Ctx  { return m.Stack[len(m.Stack)-1] }
func (m *Machine) Depth() int { return len(m.Stack) }

// lmin is min with 0 = +infinity.
func lmin(a, b uint64) uint64 {
	switch {
	case a == 0:
		return b
	case b == 0:
		return a
	case a < b:
		return a
	}
	return b
}

// left is what remains of limit h after u was used (0 = unlimited).
func left(h, u uint64) uint64 {
	if h == 0 {
		return 0
	}
	if u >= h {
		panic(fmt.Sprintf("ctxmodel invariant broken: used %d >= hard limit %d", u, h))
	}
	return h - u
}

// Push creates a child of the top context.
func (m *Machine) Push(d Def, byCall bool) *Ctx {
	p := m.Top()
	c := m.alloc()
	c.ByCall, c.Def = byCall, d
	c.Hard.Cpu = lmin(d.Hard.Cpu, left(p.Hard.Cpu, p.Used.Cpu))
	c.Hard.Mem = lmin(d.Hard.Mem, left(p.Hard.Mem, p.Used.Mem))
	c.Soft.Cpu = lmin(c.Hard.Cpu, lmin(p.Soft.Cpu, d.Soft.Cpu))
	c.Soft.Mem = lmin(c.Hard.Mem, lmin(p.Soft.Mem, d.Soft.Mem))
	// time: only bounds; the child cannot get more than requested nor more
	// than the parent's whole allowance (what is left of it depends on the clock)
	c.parentMax.Millis = lmin(d.Hard.Millis, p.Hard.Millis)
	c.softMax.Millis = lmin(p.Soft.Millis, d.Soft.Millis)
	c.Hard.Millis = c.parentMax.Millis
	c.Soft.Millis = lmin(c.Hard.Millis, c.softMax.Millis)
	c.Flags = p.Flags | d.Flags
	if d.Hard.Cpu > 0 {
		c.Flags |= CpuSafe
	}
	if d.Hard.Mem > 0 {
		c.Flags |= MemSafe
	}
	if d.Hard.Millis > 0 {
		c.Flags |= TimeSafe
	}
	c.InhSoft = p.SoftStop || p.InhSoft
	m.Stack = append(m.Stack, c)
	return c
}

// CanPush: a context on which a kill was requested is not a place to create
// children in (the contract says nothing about them).
func (m *Machine) CanPush() bool { return !m.Top().HardStop }

func add(u, n uint64) (uint64, bool) {
	s := u + n
	if s < u {
		return math.MaxUint64, true
	}
	return s, false
}

func require(used *uint64, ovf *bool, hard, soft, n uint64, c *Ctx) Expect {
	s, o := add(*used, n)
	reach := hard > 0 && (o || s >= hard)
	if c.Status == Live {
		if reach {
			c.Status = Killed
			c.HitLimit = true
			return MustKill
		}
		*used = s
		if o {
			*ovf = true
		}
		if soft > 0 && s >= soft {
			c.HitLimit = true
		}
		return NoKill
	}
	// finished or killed context still on the stack: nothing beyond the limit is ever granted
	if !reach {
		*used = s
		if o {
			*ovf = true
		}
	}
	return MayKill
}

// RequireCPU applies RequireCPU(n) to the top context.
func (m *Machine) RequireCPU(n uint64) Expect {
	c := m.Top()
	if !c.CareCpu() {
		if c.Status == Live {
			return NoKill
		}
		return MayKill
	}
	return require(&c.Used.Cpu, &c.CpuOvf, c.Hard.Cpu, c.Soft.Cpu, n, c)
}

// RequireMem applies RequireMem(n) to the top context.
func (m *Machine) RequireMem(n uint64) Expect {
	c := m.Top()
	if !c.CareMem() {
		if c.Status == Live {
			return NoKill
		}
		return MayKill
	}
	c.settleMem()
	return require(&c.Used.Mem, &c.MemOvf, c.Hard.Mem, c.Soft.Mem, n, c)
}

func (c *Ctx) settleMem() {
	// an unobserved loose release is resolved pessimistically (nothing released)
	c.memLoose = false
	c.MemLo = c.Used.Mem
}

// ReleaseMem applies ReleaseMem(n): used memory goes down by at most n.
// over reports that more was released than the active context has in use.
// That is the caller giving back memory that was charged before the context
// was entered: the implementation may refuse loudly, ignore the excess, or
// take the excess off the enclosing contexts - each of them then goes down by
// at most what is left of n.
func (m *Machine) ReleaseMem(n uint64) (over bool) {
	i := len(m.Stack) - 1
	c := m.Stack[i]
	if !c.CareMem() || c.MemOvf {
		return false
	}
	if n <= c.Used.Mem {
		c.loosen(c.Used.Mem - n)
		return false
	}
	rest := n - c.Used.Mem
	c.loosen(0)
	for i--; i >= 0 && rest > 0; i-- {
		a := m.Stack[i]
		if !a.CareMem() || a.MemOvf {
			continue
		}
		if a.Used.Mem > rest {
			a.loosen(a.Used.Mem - rest)
			rest = 0
		} else {
			rest -= a.Used.Mem
			a.loosen(0)
		}
	}
	return true
}

func (c *Ctx) loosen(lo uint64) {
	if !c.memLoose || lo < c.MemLo {
		c.MemLo = lo
	}
	c.memLoose = true
}

// Stop applies SetStopLevel to the top context.
func (m *Machine) Stop(hard bool) Expect {
	c := m.Top()
	if !hard {
		c.SoftStop = true
		if c.Status == Live {
			return NoKill
		}
		return MayKill
	}
	c.HardStop = true
	if c.Status == Live {
		c.Status = Killed
		return MustKill
	}
	return MayKill
}

// Pop removes the top context, charges its usage to the parent and returns
// it with its final status (live becomes done unless err, which gives error).
func (m *Machine) Pop(err bool) *Ctx {
	if len(m.Stack) < 2 {
		panic("ctxmodel: pop of the root")
	}
	c := m.Top()
	c.settleMemKeepLoose()
	if m.last != nil {
		m.free = append(m.free, m.last)
	}
	m.last = c
	m.Stack = m.Stack[:len(m.Stack)-1]
	p := m.Top()
	if c.Status == Live {
		c.Status = Done
		if err {
			c.Status = Error
		}
	}
	if p.CareCpu() && c.CareCpu() {
		s, o := add(p.Used.Cpu, c.Used.Cpu)
		if p.Hard.Cpu > 0 && (o || s >= p.Hard.Cpu) {
			panic(fmt.Sprintf("ctxmodel invariant broken: charging %d to parent with used %d hard %d", c.Used.Cpu, p.Used.Cpu, p.Hard.Cpu))
		}
		p.Used.Cpu = s
		p.CpuOvf = p.CpuOvf || o || c.CpuOvf
		if p.Soft.Cpu > 0 && s >= p.Soft.Cpu {
			p.HitLimit = true
		}
	}
	if p.CareMem() && c.CareMem() {
		p.settleMem()
		s, o := add(p.Used.Mem, c.Used.Mem)
		if p.Hard.Mem > 0 && (o || s >= p.Hard.Mem) {
			panic(fmt.Sprintf("ctxmodel invariant broken: charging mem %d to parent with used %d hard %d", c.Used.Mem, p.Used.Mem, p.Hard.Mem))
		}
		p.Used.Mem = s
		p.MemOvf = p.MemOvf || o || c.MemOvf
		if c.memLoose {
			// the child's figure is only known up to its release tolerance
			lo, _ := add(p.MemLo, c.MemLo)
			p.MemLo, p.memLoose = lo, true
		} else {
			p.MemLo = s
		}
		if p.Soft.Mem > 0 && s >= p.Soft.Mem {
			p.HitLimit = true
		}
	}
	return c
}

func (c *Ctx) settleMemKeepLoose() {
	if !c.memLoose {
		c.MemLo = c.Used.Mem
	}
}

// ---------------------------------------------------------------------------
// Comparison with what the implementation reports.

// Obs is what the getters of one context report.
type Obs struct {
	Hard, Soft, Used Res
	Status           Status
	Due              bool
	Flags            Flags
}

// Diff is one discrepancy; Field is a stable short name used in signatures.
type Diff struct {
	Field  string
	Detail string
}

func limStr(v uint64) string {
	if v == 0 {
		return "unlimited"
	}
	return fmt.Sprint(v)
}

// Compare checks an observation of context c.  When the observation is
// acceptable the model adopts the values the contract leaves open (time
// limits, honoured part of a release).  level is only used in messages.
func (c *Ctx) Compare(o Obs, level string) []Diff {
	if c.fastEqual(o) {
		return nil
	}
	var ds []Diff
	bad := func(field, f string, a ...interface{}) {
		ds = append(ds, Diff{Field: field, Detail: level + ": " + fmt.Sprintf(f, a...)})
	}
	if o.Hard.Cpu != c.Hard.Cpu {
		bad("hard.cpu", "hard cpu limit is %s, the contract gives %s", limStr(o.Hard.Cpu), limStr(c.Hard.Cpu))
	}
	if o.Hard.Mem != c.Hard.Mem {
		bad("hard.mem", "hard memory limit is %s, the contract gives %s", limStr(o.Hard.Mem), limStr(c.Hard.Mem))
	}
	if o.Soft.Cpu != c.Soft.Cpu {
		bad("soft.cpu", "soft cpu limit is %s, the contract gives %s (hard %s)", limStr(o.Soft.Cpu), limStr(c.Soft.Cpu), limStr(c.Hard.Cpu))
	}
	if o.Soft.Mem != c.Soft.Mem {
		bad("soft.mem", "soft memory limit is %s, the contract gives %s (hard %s)", limStr(o.Soft.Mem), limStr(c.Soft.Mem), limStr(c.Hard.Mem))
	}
	// time: order relations only
	if !c.millisSet {
		hm, sm := c.parentMax.Millis, c.softMax.Millis
		switch {
		case hm == 0 && o.Hard.Millis != 0:
			bad("hard.millis", "hard time limit %d although neither the parent nor the definition has one", o.Hard.Millis)
		case hm > 0 && (o.Hard.Millis == 0 || o.Hard.Millis > hm):
			bad("hard.millis", "hard time limit is %s, more than min(requested, parent's) = %d", limStr(o.Hard.Millis), hm)
		}
		sb := lmin(o.Hard.Millis, sm)
		switch {
		case sb == 0 && o.Soft.Millis != 0:
			bad("soft.millis", "soft time limit %d although nothing bounds it", o.Soft.Millis)
		case sb > 0 && (o.Soft.Millis == 0 || o.Soft.Millis > sb):
			bad("soft.millis", "soft time limit is %s, more than min(hard, parent's soft, requested) = %d", limStr(o.Soft.Millis), sb)
		}
		if len(ds) == 0 {
			c.Hard.Millis, c.Soft.Millis, c.millisSet = o.Hard.Millis, o.Soft.Millis, true
		}
	} else {
		if o.Hard.Millis != c.Hard.Millis {
			bad("hard.millis", "hard time limit changed from %d to %d", c.Hard.Millis, o.Hard.Millis)
		}
		if o.Soft.Millis != c.Soft.Millis {
			bad("soft.millis", "soft time limit changed from %d to %d", c.Soft.Millis, o.Soft.Millis)
		}
	}
	if c.CareCpu() && !c.CpuOvf && o.Used.Cpu != c.Used.Cpu {
		bad("used.cpu", "used cpu is %d, the contract gives %d (hard limit %s)", o.Used.Cpu, c.Used.Cpu, limStr(c.Hard.Cpu))
	}
	if c.CareMem() && !c.MemOvf {
		if c.memLoose {
			if o.Used.Mem < c.MemLo || o.Used.Mem > c.Used.Mem {
				bad("used.mem", "used memory is %d, the contract allows %d..%d after the release (hard limit %s)", o.Used.Mem, c.MemLo, c.Used.Mem, limStr(c.Hard.Mem))
			} else {
				c.Used.Mem, c.MemLo, c.memLoose = o.Used.Mem, o.Used.Mem, false
			}
		} else if o.Used.Mem != c.Used.Mem {
			bad("used.mem", "used memory is %d, the contract gives %d (hard limit %s)", o.Used.Mem, c.Used.Mem, limStr(c.Hard.Mem))
		}
	}
	// used < kill, whatever the model thinks was used
	if o.Hard.Cpu > 0 && o.Used.Cpu >= o.Hard.Cpu {
		bad("used>=kill.cpu", "used cpu %d has reached the hard limit %d", o.Used.Cpu, o.Hard.Cpu)
	}
	if o.Hard.Mem > 0 && o.Used.Mem >= o.Hard.Mem {
		bad("used>=kill.mem", "used memory %d has reached the hard limit %d", o.Used.Mem, o.Hard.Mem)
	}
	if o.Status != c.Status {
		bad("status", "status is %s, the contract gives %s", o.Status, c.Status)
	}
	if want, fixed := c.DueWant(); fixed && o.Due != want {
		bad("due", "due is %v, the contract gives %v (used cpu %d mem %d, soft cpu %s mem %s, stop requested %v)", o.Due, want,
			c.Used.Cpu, c.Used.Mem, limStr(c.Soft.Cpu), limStr(c.Soft.Mem), c.SoftStop)
	}
	if o.Flags&c.Flags != c.Flags {
		bad("flags", "required flags %s do not include %s (parent's + requested + implied by the requested hard limits)", o.Flags, c.Flags)
	} else if extra := o.Flags &^ c.Flags; extra != 0 {
		// an implementation may imply the safety flag from the effective limit too
		allowed := Flags(0)
		if o.Hard.Cpu > 0 {
			allowed |= CpuSafe
		}
		if o.Hard.Mem > 0 {
			allowed |= MemSafe
		}
		if o.Hard.Millis > 0 {
			allowed |= TimeSafe
		}
		if extra&^allowed != 0 {
			bad("flags", "required flags %s contain %s which nobody asked for (expected %s)", o.Flags, extra&^allowed, c.Flags)
		}
	}
	return ds
}

// fastEqual is the common case of Compare: everything fixed and identical.
func (c *Ctx) fastEqual(o Obs) bool {
	if !c.millisSet || c.memLoose || o.Hard != c.Hard || o.Soft != c.Soft || o.Status != c.Status || o.Flags != c.Flags {
		return false
	}
	if c.CareCpu() && !c.CpuOvf && o.Used.Cpu != c.Used.Cpu {
		return false
	}
	if c.CareMem() && !c.MemOvf && o.Used.Mem != c.Used.Mem {
		return false
	}
	if (o.Hard.Cpu > 0 && o.Used.Cpu >= o.Hard.Cpu) || (o.Hard.Mem > 0 && o.Used.Mem >= o.Hard.Mem) {
		return false
	}
	if want, fixed := c.DueWant(); fixed && o.Due != want {
		return false
	}
	return true
}

func softOverHard(ds []Diff, name string, s, h uint64) []Diff {
	if h > 0 && (s == 0 || s > h) {
		ds = append(ds, Diff{"soft>hard." + name, fmt.Sprintf("soft %s limit %s exceeds the hard limit %d", name, limStr(s), h)})
	}
	return ds
}

// Check compares the whole stack with the chain of observations (chain[0] is
// the active context, then its parents).
func (m *Machine) Check(chain []Obs) []Diff {
	if len(chain) != len(m.Stack) {
		return []Diff{{Field: "depth", Detail: fmt.Sprintf("the context stack has %d contexts, the history gives %d", len(chain), len(m.Stack))}}
	}
	var ds []Diff
	for i, o := range chain {
		c := m.Stack[len(m.Stack)-1-i]
		lvl := "active context"
		if i > 0 {
			lvl = fmt.Sprintf("ancestor %d", i)
		}
		ds = append(ds, c.Compare(o, lvl)...)
	}
	// the structural clauses of the property, on the observations alone
	for i := 0; i+1 < len(chain); i++ {
		ch, pa := chain[i], chain[i+1]
		if pa.Hard.Cpu > 0 {
			rem := uint64(0)
			if pa.Used.Cpu < pa.Hard.Cpu {
				rem = pa.Hard.Cpu - pa.Used.Cpu
			}
			if ch.Hard.Cpu == 0 || ch.Hard.Cpu > rem {
				ds = append(ds, Diff{"child>parent.cpu", fmt.Sprintf("child hard cpu limit %s exceeds what its parent has left (%d - %d)", limStr(ch.Hard.Cpu), pa.Hard.Cpu, pa.Used.Cpu)})
			}
		}
		if pa.Hard.Mem > 0 && !m.Stack[len(m.Stack)-2-i].memLoose {
			rem := uint64(0)
			if pa.Used.Mem < pa.Hard.Mem {
				rem = pa.Hard.Mem - pa.Used.Mem
			}
			if ch.Hard.Mem == 0 || ch.Hard.Mem > rem {
				ds = append(ds, Diff{"child>parent.mem", fmt.Sprintf("child hard memory limit %s exceeds what its parent has left (%d - %d)", limStr(ch.Hard.Mem), pa.Hard.Mem, pa.Used.Mem)})
			}
		}
		if pa.Hard.Millis > 0 && (ch.Hard.Millis == 0 || ch.Hard.Millis > pa.Hard.Millis) {
			ds = append(ds, Diff{"child>parent.millis", fmt.Sprintf("child hard time limit %s exceeds its parent's %d", limStr(ch.Hard.Millis), pa.Hard.Millis)})
		}
		if ch.Flags&pa.Flags != pa.Flags {
			ds = append(ds, Diff{"flags", fmt.Sprintf("child flags %s do not include the parent's %s", ch.Flags, pa.Flags)})
		}
	}
	for _, o := range chain {
		ds = softOverHard(ds, "cpu", o.Soft.Cpu, o.Hard.Cpu)
		ds = softOverHard(ds, "mem", o.Soft.Mem, o.Hard.Mem)
		ds = softOverHard(ds, "millis", o.Soft.Millis, o.Hard.Millis)
	}
	return ds
}
