package lg

import (
	"fmt"
	"math/rand"
	"strings"
)

// CoScript is a coroutine action script: K coroutines with a body made of
// steps, and a main thread made of steps. Every step emits what it observed.
type CoScript struct {
	Wrap   []bool     // coroutine i is created with coroutine.wrap
	Bodies [][]string // steps of each coroutine body
	Main   []string   // steps of the main thread
}

func (s CoScript) String() string {
	var b strings.Builder
	for i, body := range s.Bodies {
		kind := "co"
		if s.Wrap[i] {
			kind = "wrap"
		}
		fmt.Fprintf(&b, "%s%d[%s] ", kind, i+1, strings.Join(body, ","))
	}
	fmt.Fprintf(&b, "main[%s]", strings.Join(s.Main, ","))
	return b.String()
}

// Body steps; <j> is a coroutine number.
var coBodySteps = []string{"yield", "yield2", "return", "error-str", "error-tbl", "status-self", "running", "tbc", "tbc-raising", "pcall-yield", "close-self"}
var coBodyStepsJ = []string{"resume", "close", "status"}
var coMainStepsJ = []string{"resume", "resume-args", "close", "status"}
var coMainSteps = []string{"yield-main", "running-main"}

func bodyAlphabet(k int) []string {
	a := append([]string{}, coBodySteps...)
	for j := 1; j <= k; j++ {
		for _, s := range coBodyStepsJ {
			a = append(a, fmt.Sprintf("%s:%d", s, j))
		}
	}
	return a
}

func mainAlphabet(k int) []string {
	a := append([]string{}, coMainSteps...)
	for j := 1; j <= k; j++ {
		for _, s := range coMainStepsJ {
			a = append(a, fmt.Sprintf("%s:%d", s, j))
		}
	}
	return a
}

func terminal(step string) bool {
	return step == "return" || strings.HasPrefix(step, "error")
}

// EnumCoScripts enumerates every script with k coroutines (none wrapped, then
// all wrapped) whose total number of steps is at most total, where a body never
// continues after a terminal step and the main thread has at least one step.
func EnumCoScripts(k, total int) []CoScript {
	var out []CoScript
	ba, ma := bodyAlphabet(k), mainAlphabet(k)
	var seqs func(alpha []string, n int, body bool) [][]string
	seqs = func(alpha []string, n int, body bool) [][]string {
		res := [][]string{{}}
		frontier := [][]string{{}}
		for l := 1; l <= n; l++ {
			var next [][]string
			for _, s := range frontier {
				if body && len(s) > 0 && terminal(s[len(s)-1]) {
					continue
				}
				for _, a := range alpha {
					ns := append(append([]string{}, s...), a)
					next = append(next, ns)
				}
			}
			res = append(res, next...)
			frontier = next
		}
		return res
	}
	var rec func(i int, left int, bodies [][]string)
	rec = func(i int, left int, bodies [][]string) {
		if i == k {
			for _, m := range seqs(ma, left, false) {
				if len(m) == 0 {
					continue
				}
				for _, wrap := range []bool{false, true} {
					w := make([]bool, k)
					for j := range w {
						w[j] = wrap
					}
					out = append(out, CoScript{Wrap: w, Bodies: bodies, Main: m})
				}
			}
			return
		}
		for _, b := range seqs(ba, left-1, true) {
			rec(i+1, left-len(b), append(append([][]string{}, bodies...), b))
		}
	}
	rec(0, total, nil)
	return out
}

// RandomCoScript draws a larger script.
func RandomCoScript(r *rand.Rand, k, maxBody, maxMain int) CoScript {
	s := CoScript{Wrap: make([]bool, k)}
	ba, ma := bodyAlphabet(k), mainAlphabet(k)
	for i := 0; i < k; i++ {
		s.Wrap[i] = r.Intn(4) == 0
		var b []string
		for n := r.Intn(maxBody + 1); len(b) < n; {
			st := ba[r.Intn(len(ba))]
			b = append(b, st)
			if terminal(st) {
				break
			}
		}
		s.Bodies = append(s.Bodies, b)
	}
	for n := 1 + r.Intn(maxMain); len(s.Main) < n; {
		s.Main = append(s.Main, ma[r.Intn(len(ma))])
	}
	return s
}

func splitStep(step string) (string, int) {
	if i := strings.IndexByte(step, ':'); i >= 0 {
		j := 0
		fmt.Sscanf(step[i+1:], "%d", &j)
		return step[:i], j
	}
	return step, 0
}

// Program renders the script as a program.
func (s CoScript) Program() *Program {
	co := func(j int) Expr { return Ix(N("co"), j) }
	// target(j): what resume/close/status act on; for wrapped coroutines the thread is not reachable,
	// so wrapped coroutine j is called through its function, and close/status are applied to the
	// thread captured by the body itself when it first runs (co[j] = coroutine.running()).
	var st []Stmt
	st = append(st, ClosePrelude()...)
	st = append(st, Loc([]string{"co", "wf", "errobj"}, Tab(), Tab(), Tab(FK("tag", S("errobj")))))
	resumeJ := func(tag string, who string, j int, args ...Expr) Stmt {
		if s.Wrap[j-1] {
			return Emit(S(who+" "+tag), I(int64(j)), CN("pcall", append([]Expr{Ix(N("wf"), j)}, args...)...))
		}
		return Emit(S(who+" "+tag), I(int64(j)), C(Dot("coroutine", "resume"), append([]Expr{co(j)}, args...)...))
	}
	guardedJ := func(j int, then Stmt) Stmt {
		// a wrapped coroutine's thread is only known once it has run
		if s.Wrap[j-1] {
			return IfS(B("~=", co(j), Nl()), Blk(then), Blk(Emit(S("unknown thread"), I(int64(j)))))
		}
		return then
	}
	for i, body := range s.Bodies {
		id := int64(i + 1)
		who := fmt.Sprintf("b%d", i+1)
		var b []Stmt
		b = append(b, Emit(S(who+" start"), &Vararg{}))
		if s.Wrap[i] {
			b = append(b, Set(co(i+1), P(C(Dot("coroutine", "running")))))
		}
		for n, step := range body {
			name, j := splitStep(step)
			val := I(id*100 + int64(n))
			switch name {
			case "yield":
				b = append(b, Emit(S(who+" resumed with"), C(Dot("coroutine", "yield"), val)))
			case "yield2":
				b = append(b, Emit(S(who+" resumed with"), C(Dot("coroutine", "yield"), val, S("second"), Nl())))
			case "return":
				b = append(b, Ret(val, S("returned")))
			case "error-str":
				b = append(b, Do1(CN("error", S("E"+who))))
			case "error-tbl":
				b = append(b, Do1(CN("error", N("errobj"))))
			case "status-self":
				b = append(b, Emit(S(who+" own status"), C(Dot("coroutine", "status"), P(C(Dot("coroutine", "running"))))))
			case "running":
				b = append(b, Emit(S(who+" running"), CN("select", I(2), C(Dot("coroutine", "running"))), C(Dot("coroutine", "isyieldable"))))
			case "tbc":
				b = append(b, LocAttr(fmt.Sprintf("c%d", n), "close", CN("mkc", val)))
			case "tbc-raising":
				b = append(b, LocAttr(fmt.Sprintf("c%d", n), "close", CN("mkce", val)))
			case "pcall-yield":
				b = append(b, Emit(S(who+" pcall"), CN("pcall", Fn(nil, Ret(C(Dot("coroutine", "yield"), val, S("in pcall")))))))
			case "close-self":
				b = append(b, Emit(S(who+" close self"), CN("pcall", Dot("coroutine", "close"), P(C(Dot("coroutine", "running"))))))
			case "resume":
				b = append(b, resumeJ("resume", who, j, val))
			case "close":
				b = append(b, guardedJ(j, Emit(S(who+" close"), I(int64(j)), CN("pcall", Dot("coroutine", "close"), co(j)))))
			case "status":
				b = append(b, guardedJ(j, Emit(S(who+" status"), I(int64(j)), C(Dot("coroutine", "status"), co(j)))))
			}
		}
		if len(body) == 0 || !terminal(body[len(body)-1]) {
			b = append(b, Emit(S(who+" end")))
		}
		fn := &Func{IsVararg: true, Body: Blk(b...)}
		if s.Wrap[i] {
			st = append(st, Set(Ix(N("wf"), i+1), C(Dot("coroutine", "wrap"), fn)))
		} else {
			st = append(st, Set(co(i+1), C(Dot("coroutine", "create"), fn)))
		}
	}
	for n, step := range s.Main {
		name, j := splitStep(step)
		switch name {
		case "resume":
			st = append(st, resumeJ("resume", "main", j))
		case "resume-args":
			st = append(st, resumeJ("resume", "main", j, I(int64(n)), S("arg"), Nl()))
		case "close":
			st = append(st, guardedJ(j, Emit(S("main close"), I(int64(j)), CN("pcall", Dot("coroutine", "close"), co(j)))))
		case "status":
			st = append(st, guardedJ(j, Emit(S("main status"), I(int64(j)), C(Dot("coroutine", "status"), co(j)))))
		case "yield-main":
			st = append(st, Emit(S("main yield"), CN("pcall", Dot("coroutine", "yield"), I(1))))
		case "running-main":
			st = append(st, Emit(S("main running"), CN("select", I(2), C(Dot("coroutine", "running"))), C(Dot("coroutine", "isyieldable"))))
		}
	}
	// final statuses
	for j := range s.Bodies {
		st = append(st, guardedJ(j+1, Emit(S("final status"), I(int64(j+1)), C(Dot("coroutine", "status"), co(j+1)))))
	}
	ch := NewChunk(Blk(st...))
	Resolve(ch)
	return &Program{Chunk: ch, Features: map[string]int{"co-script": 1}}
}
