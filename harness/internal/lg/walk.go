package lg

// MapExprs rewrites every expression of the chunk bottom-up with f (which
// returns its argument to leave it unchanged). The tree is modified in place.
func MapExprs(c *Chunk, f func(Expr) Expr) {
	mapBlock(c.Body, f)
}

func mapBlock(b *Block, f func(Expr) Expr) {
	if b == nil {
		return
	}
	for _, s := range b.Stmts {
		mapStmt(s, f)
	}
}

func mapList(es []Expr, f func(Expr) Expr) {
	for i, e := range es {
		es[i] = mapExpr(e, f)
	}
}

func mapStmt(s Stmt, f func(Expr) Expr) {
	switch n := s.(type) {
	case *Local:
		mapList(n.Exprs, f)
	case *Assign:
		mapList(n.Exprs, f)
		for i, t := range n.Targets {
			if ix, ok := t.(*Index); ok {
				ix.Obj = mapExpr(ix.Obj, f)
				ix.Key = mapExpr(ix.Key, f)
				n.Targets[i] = ix
			}
		}
	case *CallStmt:
		// the call itself must stay a call
		switch c := n.Call.(type) {
		case *Call:
			c.Fn = mapExpr(c.Fn, f)
			mapList(c.Args, f)
		case *MethCall:
			c.Obj = mapExpr(c.Obj, f)
			mapList(c.Args, f)
		}
	case *Do:
		mapBlock(n.Body, f)
	case *While:
		n.Cond = mapExpr(n.Cond, f)
		mapBlock(n.Body, f)
	case *Repeat:
		mapBlock(n.Body, f)
		n.Cond = mapExpr(n.Cond, f)
	case *If:
		for i := range n.Conds {
			n.Conds[i] = mapExpr(n.Conds[i], f)
			mapBlock(n.Blocks[i], f)
		}
		mapBlock(n.Else, f)
	case *NumFor:
		n.Start = mapExpr(n.Start, f)
		n.Limit = mapExpr(n.Limit, f)
		if n.Step != nil {
			n.Step = mapExpr(n.Step, f)
		}
		mapBlock(n.Body, f)
	case *GenFor:
		mapList(n.Exprs, f)
		mapBlock(n.Body, f)
	case *FuncStmt:
		mapBlock(n.Fn.Body, f)
	case *LocalFunc:
		mapBlock(n.Fn.Body, f)
	case *Return:
		mapList(n.Exprs, f)
	}
}

func mapExpr(e Expr, f func(Expr) Expr) Expr {
	switch n := e.(type) {
	case *Index:
		n.Obj = mapExpr(n.Obj, f)
		n.Key = mapExpr(n.Key, f)
	case *Call:
		n.Fn = mapExpr(n.Fn, f)
		mapList(n.Args, f)
	case *MethCall:
		n.Obj = mapExpr(n.Obj, f)
		mapList(n.Args, f)
	case *Func:
		mapBlock(n.Body, f)
	case *Bin:
		n.L = mapExpr(n.L, f)
		n.R = mapExpr(n.R, f)
	case *Un:
		n.X = mapExpr(n.X, f)
	case *Paren:
		n.X = mapExpr(n.X, f)
	case *Table:
		for i := range n.Fields {
			if n.Fields[i].Key != nil {
				n.Fields[i].Key = mapExpr(n.Fields[i].Key, f)
			}
			n.Fields[i].Val = mapExpr(n.Fields[i].Val, f)
		}
	}
	return f(e)
}

// WrapRedump wraps function literals that use no local variable of an
// enclosing function into redump(<function>): the host defines redump(f) as
// load(string.dump(f)) and the reference defines it as the identity, which is
// what the manual promises for functions without upvalues other than _ENV.
// pick decides per eligible function. It returns the number of wrapped functions.
func WrapRedump(c *Chunk, pick func() bool) int {
	Resolve(c)
	n := 0
	MapExprs(c, func(e Expr) Expr {
		fn, ok := e.(*Func)
		if !ok || len(fn.Free) != 0 || fn.HasSelf || !pick() {
			return e
		}
		n++
		return &Call{Fn: &Name{Name: "redump"}, Args: []Expr{fn}}
	})
	Resolve(c)
	return n
}

// Validate checks the static rules the generator must respect (a violation is
// a generator bug, not a property of golua): `...` only inside vararg
// functions, break only inside loops, no assignment to <const>/<close>
// variables, goto only to a label visible in an enclosing block of the same
// function. It returns "" for a valid chunk.
func Validate(c *Chunk) string {
	Resolve(c)
	v := &validator{}
	v.fn(c.Fn)
	return v.err
}

type validator struct{ err string }

func (v *validator) fail(s string) {
	if v.err == "" {
		v.err = s
	}
}

type vctx struct {
	vararg bool
	loops  int
	labels []map[string]bool
}

func (v *validator) fn(f *Func) {
	ctx := &vctx{vararg: f.IsVararg}
	v.block(f.Body, ctx)
}

func (v *validator) block(b *Block, ctx *vctx) {
	if b == nil {
		return
	}
	ls := map[string]bool{}
	for _, s := range b.Stmts {
		if l, ok := s.(*Label); ok {
			ls[l.Name] = true
		}
	}
	ctx.labels = append(ctx.labels, ls)
	for _, s := range b.Stmts {
		v.stmt(s, ctx)
	}
	ctx.labels = ctx.labels[:len(ctx.labels)-1]
}

func (v *validator) exprs(es []Expr, ctx *vctx) {
	for _, e := range es {
		v.expr(e, ctx)
	}
}

func (v *validator) stmt(s Stmt, ctx *vctx) {
	switch n := s.(type) {
	case *Local:
		v.exprs(n.Exprs, ctx)
	case *Assign:
		v.exprs(n.Exprs, ctx)
		for _, t := range n.Targets {
			if nm, ok := t.(*Name); ok && nm.Decl != nil && nm.Decl.Attrib != "" {
				v.fail("assignment to " + nm.Decl.Attrib + " variable " + nm.Name)
			}
			v.expr(t, ctx)
		}
	case *CallStmt:
		v.expr(n.Call, ctx)
	case *Do:
		v.block(n.Body, ctx)
	case *While:
		v.expr(n.Cond, ctx)
		ctx.loops++
		v.block(n.Body, ctx)
		ctx.loops--
	case *Repeat:
		ctx.loops++
		v.block(n.Body, ctx)
		ctx.loops--
		v.expr(n.Cond, ctx)
	case *If:
		for i := range n.Conds {
			v.expr(n.Conds[i], ctx)
			v.block(n.Blocks[i], ctx)
		}
		v.block(n.Else, ctx)
	case *NumFor:
		v.expr(n.Start, ctx)
		v.expr(n.Limit, ctx)
		if n.Step != nil {
			v.expr(n.Step, ctx)
		}
		ctx.loops++
		v.block(n.Body, ctx)
		ctx.loops--
	case *GenFor:
		v.exprs(n.Exprs, ctx)
		ctx.loops++
		v.block(n.Body, ctx)
		ctx.loops--
	case *FuncStmt:
		v.fn(n.Fn)
	case *LocalFunc:
		v.fn(n.Fn)
	case *Return:
		v.exprs(n.Exprs, ctx)
	case *Break:
		if ctx.loops == 0 {
			v.fail("break outside a loop")
		}
	case *Goto:
		found := false
		for _, ls := range ctx.labels {
			if ls[n.Label] {
				found = true
			}
		}
		if !found {
			v.fail("goto " + n.Label + " without a visible label")
		}
	}
}

func (v *validator) expr(e Expr, ctx *vctx) {
	switch n := e.(type) {
	case *Vararg:
		if !ctx.vararg {
			v.fail("'...' outside a vararg function")
		}
	case *Index:
		v.expr(n.Obj, ctx)
		v.expr(n.Key, ctx)
	case *Call:
		v.expr(n.Fn, ctx)
		v.exprs(n.Args, ctx)
	case *MethCall:
		v.expr(n.Obj, ctx)
		v.exprs(n.Args, ctx)
	case *Func:
		v.fn(n)
	case *Bin:
		v.expr(n.L, ctx)
		v.expr(n.R, ctx)
	case *Un:
		v.expr(n.X, ctx)
	case *Paren:
		v.expr(n.X, ctx)
	case *Table:
		for _, f := range n.Fields {
			if f.Key != nil {
				v.expr(f.Key, ctx)
			}
			v.expr(f.Val, ctx)
		}
	}
}
