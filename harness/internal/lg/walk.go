package lg

// MapExprs rewrites every expression of the chunk bottom-up with f (which
// returns its argument to leave it unchanged). The tree is modified in place.
func MapExprs(c *Chunk, f func(Expr) Expr) {
	mapBlock(c.Body, f)
}

func mapBlock(b *Block, f func(Expr) Expr) {
	if b == nil {
		return
	}
	for _, s := range b.Stmts {
		mapStmt(s, f)
	}
}

func mapList(es []Expr, f func(Expr) Expr) {
	for i, e := range es {
		es[i] = mapExpr(e, f)
	}
}

func mapStmt(s Stmt, f func(Expr) Expr) {
	switch n := s.(type) {
	case *Local:
		mapList(n.Exprs, f)
	case *Assign:
		mapList(n.Exprs, f)
		for i, t := range n.Targets {
			if ix, ok := t.(*Index); ok {
				ix.Obj = mapExpr(ix.Obj, f)
				ix.Key = mapExpr(ix.Key, f)
				n.Targets[i] = ix
			}
		}
	case *CallStmt:
		// the call itself must stay a call
		switch c := n.Call.(type) {
		case *Call:
			c.Fn = mapExpr(c.Fn, f)
			mapList(c.Args, f)
		case *MethCall:
			c.Obj = mapExpr(c.Obj, f)
			mapList(c.Args, f)
		}
	case *Do:
		mapBlock(n.Body, f)
	case *While:
		n.Cond = mapExpr(n.Cond, f)
		mapBlock(n.Body, f)
	case *Repeat:
		mapBlock(n.Body, f)
		n.Cond = mapExpr(n.Cond, f)
	case *If:
		for i := range n.Conds {
			n.Conds[i] = mapExpr(n.Conds[i], f)
			mapBlock(n.Blocks[i], f)
		}
		mapBlock(n.Else, f)
	case *NumFor:
		n.Start = mapExpr(n.Start, f)
		n.Limit = mapExpr(n.Limit, f)
		if n.Step != nil {
			n.Step = mapExpr(n.Step, f)
		}
		mapBlock(n.Body, f)
	case *GenFor:
		mapList(n.Exprs, f)
		mapBlock(n.Body, f)
	case *FuncStmt:
		mapBlock(n.Fn.Body, f)
	case *LocalFunc:
		mapBlock(n.Fn.Body, f)
	case *Return:
		mapList(n.Exprs, f)
	}
}

func mapExpr(e Expr, f func(Expr) Expr) Expr {
	switch n := e.(type) {
	case *Index:
		n.Obj = mapExpr(n.Obj, f)
		n.Key = mapExpr(n.Key, f)
	case *Call:
		n.Fn = mapExpr(n.Fn, f)
		mapList(n.Args, f)
	case *MethCall:
		n.Obj = mapExpr(n.Obj, f)
		mapList(n.Args, f)
	case *Func:
		mapBlock(n.Body, f)
	case *Bin:
		n.L = mapExpr(n.L, f)
		n.R = mapExpr(n.R, f)
	case *Un:
		n.X = mapExpr(n.X, f)
	case *Paren:
		n.X = mapExpr(n.X, f)
	case *Table:
		for i := range n.Fields {
			if n.Fields[i].Key != nil {
				n.Fields[i].Key = mapExpr(n.Fields[i].Key, f)
			}
			n.Fields[i].Val = mapExpr(n.Fields[i].Val, f)
		}
	}
	return f(e)
}

// WrapRedump wraps function literals that use no local variable of an
// enclosing function into redump(<function>): the host defines redump(f) as
// load(string.dump(f)) and the reference defines it as the identity, which is
// what the manual promises for functions without upvalues other than _ENV.
// pick decides per eligible function. It returns the number of wrapped functions.
func WrapRedump(c *Chunk, pick func() bool) int {
	Resolve(c)
	n := 0
	MapExprs(c, func(e Expr) Expr {
		fn, ok := e.(*Func)
		if !ok || len(fn.Free) != 0 || fn.HasSelf || !pick() {
			return e
		}
		n++
		return &Call{Fn: &Name{Name: "redump"}, Args: []Expr{fn}}
	})
	Resolve(c)
	return n
}
