package lg

import (
	"fmt"
	"math"
	"math/rand"
)

// Kind is the generator's static guess of a variable's run-time type. It only
// steers generation towards programs that mostly run without type errors; the
// reference interpreter, not the generator, decides what a program means.
type Kind int

const (
	KInt Kind = iota
	KFloat
	KStr
	KBool
	KSeq // table: sequence of integers
	KRec // table: a few string keys holding integers
	KObj // table with a metatable (class)
	KFn  // function (int, int) -> int, pure
	KAny
	nKinds
)

type gvar struct {
	name    string
	kind    Kind
	mutable bool
	global  bool
	hidden  int // >0 while shadowed by an inner declaration
	cls     *class
	impure  bool // KFn: the function emits / mutates / may raise
	nret    int  // KFn impure: number of results
	vararg  bool
}

type class struct {
	meta    *gvar // variable holding the metatable
	ops     []string
	tracing bool
}

type gscope struct {
	vars []*gvar
	fn   bool
}

// Options of the generator.
type GenOptions struct {
	Stmts     int // statement budget
	MaxDepth  int // block nesting
	ExprDepth int
	// feature weights (0 = never)
	WClosure, WMeta, WGoto, WCoroutine, WTBC, WError, WPcall, WVararg, WMethod, WStringOps, WTail int
	ErrorSites bool // deliberately ill-typed operations
	Health     bool // append the fixed health suite (C11: the runtime still works after caught errors)
	ErrInMeta  bool // metamethods and iterators that raise
	// NoYieldInPcall: no coroutine.yield inside a pcall/xpcall body (golua's
	// execution contexts do not follow a coroutine that yields inside a
	// protected call: known finding of C07, kept out of the quota corpora)
	NoYieldInPcall bool
}

func DefaultGenOptions() GenOptions {
	return GenOptions{Stmts: 40, MaxDepth: 4, ExprDepth: 3, WClosure: 6, WMeta: 5, WGoto: 3, WCoroutine: 4, WTBC: 3, WError: 4, WPcall: 5,
		WVararg: 4, WMethod: 3, WStringOps: 4, WTail: 2, ErrorSites: true}
}

// Gen generates programs.
type Gen struct {
	r        *rand.Rand
	o        GenOptions
	scopes   []*gscope
	ctr      int
	budget   int
	depth    int
	loops    []string // innermost loop's continue label ("" = none declared yet)
	inVararg []bool
	errSite  bool // an error site was already placed in the current statement
	labelCtr int
	fnNest   int
	inCo     int // >0 inside a coroutine body (yield allowed)
	Features map[string]int
	tbcDepth int
}

func NewGen(r *rand.Rand, o GenOptions) *Gen {
	return &Gen{r: r, o: o, Features: map[string]int{}}
}

func (g *Gen) feat(s string) { g.Features[s]++ }

func (g *Gen) n(k int) int {
	if k <= 0 {
		return 0
	}
	return g.r.Intn(k)
}
func (g *Gen) chance(k int) bool { return g.r.Intn(k) == 0 }

func (g *Gen) push(fn bool) { g.scopes = append(g.scopes, &gscope{fn: fn}) }
func (g *Gen) pop() {
	s := g.scopes[len(g.scopes)-1]
	for _, v := range s.vars {
		if !v.global {
			g.unhide(v.name, v)
		}
	}
	g.scopes = g.scopes[:len(g.scopes)-1]
}

func (g *Gen) unhide(name string, inner *gvar) {
	for _, s := range g.scopes {
		for _, v := range s.vars {
			if v != inner && v.name == name && v.hidden > 0 {
				v.hidden--
			}
		}
	}
}

var kindPrefix = [...]string{"i", "f", "s", "b", "q", "r", "o", "fn", "v"}

func (g *Gen) fresh(prefix string) string {
	g.ctr++
	return fmt.Sprintf("%s%d", prefix, g.ctr)
}

// declare adds a variable to the current scope (after its initialiser was generated).
func (g *Gen) declare(v *gvar) *gvar {
	for _, s := range g.scopes {
		for _, o := range s.vars {
			if o.name == v.name && o != v {
				o.hidden++
			}
		}
	}
	s := g.scopes[len(g.scopes)-1]
	s.vars = append(s.vars, v)
	return v
}

func (g *Gen) newVar(k Kind, mutable bool) *gvar {
	name := g.fresh(kindPrefix[k])
	// shadowing: sometimes reuse the name of a visible variable
	if g.chance(12) {
		if vs := g.visible(func(v *gvar) bool { return !v.global }); len(vs) > 0 {
			name = vs[g.n(len(vs))].name
			g.feat("shadowing")
		}
	}
	return &gvar{name: name, kind: k, mutable: mutable}
}

func (g *Gen) visible(pred func(*gvar) bool) []*gvar {
	var out []*gvar
	for _, s := range g.scopes {
		for _, v := range s.vars {
			if v.hidden == 0 && pred(v) {
				out = append(out, v)
			}
		}
	}
	return out
}

func (g *Gen) pick(k Kind, pred func(*gvar) bool) *gvar {
	vs := g.visible(func(v *gvar) bool { return v.kind == k && (pred == nil || pred(v)) })
	if len(vs) == 0 {
		return nil
	}
	// prefer recent variables
	if g.chance(2) {
		lo := len(vs) - 4
		if lo < 0 {
			lo = 0
		}
		return vs[lo+g.n(len(vs)-lo)]
	}
	return vs[g.n(len(vs))]
}

func ref(v *gvar) Expr { return &Name{Name: v.name} }

// ---------------------------------------------------------------------------
// Literals

var intPool = []int64{0, 1, -1, 2, 3, 5, 7, 10, 16, 63, 64, 100, 255, 256, 1000, 65535, 1 << 31, -(1 << 31), 1<<32 + 1, 1 << 53, 1<<53 + 1,
	math.MaxInt64, math.MaxInt64 - 1, math.MinInt64, math.MinInt64 + 1, 1 << 62}

var floatPool = []float64{0, 0.5, -0.5, 1, -1, 1.5, 2, 2.5, 3, 10, 100, 0.25, 1e15, 1 << 53, 1e100, -1e100, 9223372036854775808, 4.75, 1e-3, 255.5}

var strPool = []string{"", "a", "b", "ab", "abc", "hello", "x y", "10", "0x10", "3.5", "1e2", " 7 ", "z", "key", "\n", "a\x00b", "\"q\"", "it's", "\\", "tab\t", "\xff\xfe", "]]", "--", "k1", "k2"}

func (g *Gen) intLit() Expr {
	if g.chance(3) {
		return &Int{V: intPool[g.n(len(intPool))]}
	}
	return &Int{V: int64(g.n(21) - 4)}
}

func (g *Gen) smallInt(lo, hi int) Expr { return &Int{V: int64(lo + g.n(hi-lo+1))} }

func (g *Gen) floatLit() Expr {
	if g.chance(8) {
		switch g.n(3) {
		case 0:
			return &Bin{Op: "/", L: &Int{V: 1}, R: &Int{V: 0}} // inf
		case 1:
			return &Bin{Op: "/", L: &Int{V: -1}, R: &Int{V: 0}}
		default:
			return &Bin{Op: "/", L: &Int{V: 0}, R: &Int{V: 0}} // nan
		}
	}
	return &Float{V: floatPool[g.n(len(floatPool))]}
}

func (g *Gen) strLit() Expr { return &Str{V: strPool[g.n(len(strPool))]} }

func (g *Gen) identStr() string { return []string{"x", "y", "n", "val", "k1", "k2", "name"}[g.n(7)] }

// ---------------------------------------------------------------------------
// Pure expressions by kind. They read variables but have no side effect; they
// may raise a run-time error only at a deliberate error site (at most one per
// statement).

func (g *Gen) expr(k Kind, d int) Expr {
	if g.o.ErrorSites && !g.errSite && d > 0 && g.chance(60) {
		g.errSite = true
		g.feat("error-site")
		return g.errorSite(k, d)
	}
	switch k {
	case KInt:
		return g.intExpr(d)
	case KFloat:
		return g.floatExpr(d)
	case KStr:
		return g.strExpr(d)
	case KBool:
		return g.boolExpr(d)
	case KSeq:
		return g.seqExpr(d)
	case KRec:
		return g.recExpr(d)
	case KFn:
		return g.fnExpr(d)
	case KObj:
		if v := g.pick(KObj, func(v *gvar) bool { return !v.cls.tracing }); v != nil {
			return ref(v)
		}
		return g.recExpr(d)
	}
	return g.anyExpr(d)
}

func (g *Gen) errorSite(k Kind, d int) Expr {
	switch g.n(7) {
	case 0:
		return &Bin{Op: "+", L: &Nil{}, R: g.intExpr(d - 1)}
	case 1:
		return &Index{Obj: &Paren{X: &Nil{}}, Key: &Str{V: "x"}}
	case 2:
		return &Bin{Op: "<", L: g.intExpr(d - 1), R: g.strLit()}
	case 3:
		return &Bin{Op: "..", L: g.strExpr(d - 1), R: &Table{}}
	case 4:
		return &Call{Fn: &Paren{X: &Nil{}}, Args: []Expr{g.intExpr(d - 1)}}
	case 5:
		return &Un{Op: "#", X: g.intExpr(d - 1)}
	default:
		return &Bin{Op: "&", L: g.intExpr(d - 1), R: &Float{V: 1.5}}
	}
}

func (g *Gen) anyExpr(d int) Expr {
	switch g.n(8) {
	case 0:
		return &Nil{}
	case 1:
		return g.boolExpr(d)
	case 2:
		return g.strExpr(d)
	case 3:
		return g.floatExpr(d)
	case 4:
		if v := g.pick(KAny, nil); v != nil {
			return ref(v)
		}
	case 5:
		return g.seqExpr(d)
	}
	return g.intExpr(d)
}

func (g *Gen) intExpr(d int) Expr {
	if d <= 0 || g.chance(4) {
		if v := g.pick(KInt, nil); v != nil && !g.chance(3) {
			return ref(v)
		}
		return g.intLit()
	}
	switch g.n(16) {
	case 0, 1, 2:
		op := []string{"+", "-", "*"}[g.n(3)]
		return &Bin{Op: op, L: g.intExpr(d - 1), R: g.intExpr(d - 1)}
	case 3:
		// floor division / modulo with a divisor that cannot be zero
		op := []string{"//", "%"}[g.n(2)]
		return &Bin{Op: op, L: g.intExpr(d - 1), R: &Bin{Op: "|", L: g.intExpr(d - 1), R: &Int{V: 1}}}
	case 4:
		op := []string{"&", "|", "~", "<<", ">>"}[g.n(5)]
		r := g.intExpr(d - 1)
		if op == "<<" || op == ">>" {
			if g.chance(2) {
				r = g.smallInt(-3, 70)
			}
		}
		return &Bin{Op: op, L: g.intExpr(d - 1), R: r}
	case 5:
		return &Un{Op: []string{"-", "~"}[g.n(2)], X: g.intExpr(d - 1)}
	case 6:
		return &Un{Op: "#", X: g.strExpr(d - 1)}
	case 7:
		if v := g.pick(KSeq, nil); v != nil {
			if g.chance(2) {
				return &Un{Op: "#", X: ref(v)}
			}
			return &Paren{X: &Bin{Op: "or", L: &Index{Obj: ref(v), Key: g.smallInt(0, 5)}, R: g.intLit()}}
		}
	case 8:
		if v := g.pick(KRec, nil); v != nil {
			return &Paren{X: &Bin{Op: "or", L: &Index{Obj: ref(v), Key: &Str{V: g.identStr()}}, R: g.intLit()}}
		}
	case 9:
		if v := g.pick(KFn, func(v *gvar) bool { return !v.impure }); v != nil {
			g.feat("pure-call")
			return &Call{Fn: ref(v), Args: []Expr{g.intExpr(d - 1), g.intExpr(d - 1)}}
		}
	case 10:
		// conditional value
		return &Paren{X: &Bin{Op: "or", L: &Bin{Op: "and", L: g.boolExpr(d - 1), R: g.intExpr(d - 1)}, R: g.intExpr(d - 1)}}
	case 11:
		if g.inVararg[len(g.inVararg)-1] {
			g.feat("select-count")
			return &Call{Fn: &Name{Name: "select"}, Args: []Expr{&Str{V: "#"}, &Vararg{}}}
		}
	case 12:
		// string arithmetic coercion
		g.feat("string-arith")
		return &Bin{Op: []string{"+", "-", "*"}[g.n(3)], L: &Str{V: []string{"10", "0x10", " 7 ", "3"}[g.n(4)]}, R: g.intExpr(d - 1)}
	case 13:
		fn := []string{"math.abs", "math.max", "math.min"}[g.n(3)]
		args := []Expr{g.intExpr(d - 1)}
		if fn != "math.abs" {
			args = append(args, g.intExpr(d-1))
		}
		return &Call{Fn: &Index{Obj: &Name{Name: "math"}, Key: &Str{V: fn[5:]}}, Args: args}
	case 14:
		// float to integer where exact
		return &Call{Fn: &Index{Obj: &Name{Name: "math"}, Key: &Str{V: "floor"}}, Args: []Expr{&Float{V: floatPool[g.n(8)]}}}
	}
	return &Bin{Op: "+", L: g.intExpr(d - 1), R: g.intLit()}
}

func (g *Gen) floatExpr(d int) Expr {
	if d <= 0 || g.chance(4) {
		if v := g.pick(KFloat, nil); v != nil && !g.chance(3) {
			return ref(v)
		}
		return g.floatLit()
	}
	switch g.n(8) {
	case 0, 1:
		op := []string{"+", "-", "*", "/"}[g.n(4)]
		return &Bin{Op: op, L: g.floatExpr(d - 1), R: g.floatExpr(d - 1)}
	case 2:
		return &Bin{Op: "/", L: g.intExpr(d - 1), R: g.intExpr(d - 1)}
	case 3:
		op := []string{"+", "-", "*", "//", "%"}[g.n(5)]
		return &Bin{Op: op, L: g.floatExpr(d - 1), R: g.intExpr(d - 1)}
	case 4:
		return &Un{Op: "-", X: g.floatExpr(d - 1)}
	case 5:
		// exact powers only
		return &Bin{Op: "^", L: g.smallInt(-3, 4), R: g.smallInt(0, 5)}
	case 6:
		return &Bin{Op: "+", L: &Str{V: []string{"1.5", "1e2", "0x.8"}[g.n(3)]}, R: g.floatExpr(d - 1)}
	}
	return &Bin{Op: "*", L: g.floatExpr(d - 1), R: g.floatLit()}
}

func (g *Gen) strExpr(d int) Expr {
	if d <= 0 || g.chance(3) {
		if v := g.pick(KStr, nil); v != nil && !g.chance(3) {
			return ref(v)
		}
		return g.strLit()
	}
	switch g.n(9) {
	case 0, 1:
		return &Bin{Op: "..", L: g.strExpr(d - 1), R: g.strExpr(d - 1)}
	case 2:
		return &Bin{Op: "..", L: g.strExpr(d - 1), R: g.intExpr(d - 1)}
	case 3:
		return &Bin{Op: "..", L: g.intExpr(d - 1), R: g.strExpr(d - 1)}
	case 4:
		g.feat("string-method")
		// string.rep with a negative count is judged by C19 (golua's own test-suite
		// expects an error there); not generated here
		return &MethCall{Obj: g.strOperand(d - 1), Name: "rep", Args: []Expr{g.smallInt(0, 3)}}
	case 5:
		g.feat("string-method")
		return &MethCall{Obj: g.strOperand(d - 1), Name: "sub", Args: []Expr{g.smallInt(-4, 4), g.smallInt(-4, 5)}}
	case 6:
		g.feat("string-method")
		return &MethCall{Obj: g.strOperand(d - 1), Name: []string{"upper", "lower", "reverse"}[g.n(3)]}
	case 7:
		return &Call{Fn: &Name{Name: "tostring"}, Args: []Expr{[]Expr{g.intExpr(d - 1), g.boolExpr(d - 1), &Nil{}}[g.n(3)]}}
	case 8:
		return &Call{Fn: &Name{Name: "type"}, Args: []Expr{g.anyExpr(d - 1)}}
	}
	return g.strLit()
}

// strOperand returns a string expression usable before `:method` (the renderer
// parenthesises literals).
func (g *Gen) strOperand(d int) Expr {
	if v := g.pick(KStr, nil); v != nil && g.chance(2) {
		return ref(v)
	}
	return g.strExpr(d)
}

func (g *Gen) boolExpr(d int) Expr {
	if d <= 0 || g.chance(5) {
		if v := g.pick(KBool, nil); v != nil && !g.chance(3) {
			return ref(v)
		}
		if g.chance(2) {
			return &True{}
		}
		return &False{}
	}
	cmp := []string{"<", "<=", ">", ">=", "==", "~="}
	switch g.n(9) {
	case 0, 1:
		return &Bin{Op: cmp[g.n(6)], L: g.intExpr(d - 1), R: g.intExpr(d - 1)}
	case 2:
		return &Bin{Op: cmp[g.n(6)], L: g.floatExpr(d - 1), R: g.intExpr(d - 1)}
	case 3:
		return &Bin{Op: cmp[g.n(6)], L: g.intExpr(d - 1), R: g.floatExpr(d - 1)}
	case 4:
		return &Bin{Op: []string{"==", "~="}[g.n(2)], L: g.strExpr(d - 1), R: g.strExpr(d - 1)}
	case 5:
		return &Un{Op: "not", X: g.anyExpr(d - 1)}
	case 6:
		return &Bin{Op: []string{"and", "or"}[g.n(2)], L: g.boolExpr(d - 1), R: g.boolExpr(d - 1)}
	case 7:
		return &Bin{Op: []string{"==", "~="}[g.n(2)], L: g.anyExpr(d - 1), R: g.anyExpr(d - 1)}
	case 8:
		words := []string{"a", "b", "ab", "abc", "z", "k1"}
		return &Bin{Op: cmp[g.n(4)], L: &Str{V: words[g.n(6)]}, R: &Str{V: words[g.n(6)]}}
	}
	return &True{}
}

func (g *Gen) seqExpr(d int) Expr {
	if v := g.pick(KSeq, nil); v != nil && (d <= 0 || g.chance(2)) {
		return ref(v)
	}
	n := g.n(5)
	t := &Table{}
	for i := 0; i < n; i++ {
		t.Fields = append(t.Fields, Field{Val: g.intExpr(d - 1)})
	}
	if g.chance(6) && g.inVararg[len(g.inVararg)-1] {
		t.Fields = append(t.Fields, Field{Val: &Vararg{}})
		g.feat("constructor-vararg")
	}
	if g.chance(8) {
		// explicit integer keys continuing the sequence
		t.Fields = append(t.Fields, Field{Key: &Int{V: int64(n + 1)}, Val: g.intExpr(d - 1)})
	}
	return t
}

func (g *Gen) recExpr(d int) Expr {
	if v := g.pick(KRec, nil); v != nil && (d <= 0 || g.chance(2)) {
		return ref(v)
	}
	t := &Table{}
	seen := map[string]bool{}
	for i, n := 0, 1+g.n(3); i < n; i++ {
		k := g.identStr()
		if seen[k] {
			continue
		}
		seen[k] = true
		t.Fields = append(t.Fields, Field{Key: &Str{V: k}, Val: g.intExpr(d - 1)})
	}
	return t
}

func (g *Gen) fnExpr(d int) Expr {
	if v := g.pick(KFn, func(v *gvar) bool { return !v.impure }); v != nil && (d <= 0 || g.chance(2)) {
		return ref(v)
	}
	return g.pureFunc(d)
}

// pureFunc builds `function(a, b) return <int expr over a, b and visible immutable ints> end`.
func (g *Gen) pureFunc(d int) *Func {
	a, b := &Decl{Name: g.fresh("a")}, &Decl{Name: g.fresh("b")}
	g.push(true)
	g.inVararg = append(g.inVararg, false)
	g.declare(&gvar{name: a.Name, kind: KInt})
	g.declare(&gvar{name: b.Name, kind: KInt})
	saved := g.errSite
	g.errSite = true // no error sites inside pure functions
	body := g.intExpr(d)
	g.errSite = saved
	g.inVararg = g.inVararg[:len(g.inVararg)-1]
	g.pop()
	g.feat("pure-function")
	return &Func{Params: []*Decl{a, b}, Body: &Block{Stmts: []Stmt{&Return{Exprs: []Expr{body}}}}}
}

func (g *Gen) kindOfArgs() Kind { return []Kind{KInt, KInt, KFloat, KStr, KBool, KAny}[g.n(6)] }

func emitCall(args ...Expr) Stmt {
	return &CallStmt{Call: &Call{Fn: &Name{Name: "emit"}, Args: args}}
}
