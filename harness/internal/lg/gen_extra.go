package lg

// tbcDecl returns `local cN <close> = mkc(id)` (or the variant whose handler
// raises) with a fresh id.
func (g *Gen) tbcDecl() Stmt {
	g.labelCtr++
	id := int64(g.labelCtr)
	mk := "mkc"
	if g.chance(4) {
		mk = "mkce"
		g.feat("tbc-raising-handler")
	}
	return LocAttr(g.fresh("c"), "close", CN(mk, I(id)))
}

// healthSuite is a fixed workload appended to a program: after whatever errors
// were caught before, loops, closures, deep calls (which recycle pooled
// continuations and registers), coroutines, table growth and string building
// must still work.
func (g *Gen) healthSuite() []Stmt {
	g.feat("health-suite")
	return []Stmt{
		Emit(S("health")),
		// closures over loop variables
		Loc1("hfs", Tab()),
		&NumFor{Var: &Decl{Name: "hi"}, Start: I(1), Limit: I(4), Body: Blk(
			Set(Ix(N("hfs"), N("hi")), Fn(nil, Ret(B("*", N("hi"), N("hi"))))))},
		Emit(C(Ix(N("hfs"), 1)), C(Ix(N("hfs"), 4)), U("#", N("hfs"))),
		// deep non-tail and tail calls
		LocFn("hdeep", Fn([]string{"n"}, IfS(B("==", N("n"), I(0)), Blk(Ret(I(0))), nil), Ret(B("+", I(1), C(N("hdeep"), B("-", N("n"), I(1))))))),
		LocFn("htail", Fn([]string{"n", "a"}, IfS(B("==", N("n"), I(0)), Blk(Ret(N("a"))), nil), Ret(C(N("htail"), B("-", N("n"), I(1)), B("+", N("a"), I(2)))))),
		Emit(C(N("hdeep"), I(120)), C(N("htail"), I(5000), I(0))),
		// coroutine generator
		Loc1("hsum", I(0)),
		&GenFor{Vars: []*Decl{{Name: "hv"}}, Exprs: []Expr{C(Dot("coroutine", "wrap"), Fn(nil,
			&NumFor{Var: &Decl{Name: "hk"}, Start: I(1), Limit: I(5), Body: Blk(Do1(C(Dot("coroutine", "yield"), N("hk"))))}))},
			Body: Blk(Set(N("hsum"), B("+", N("hsum"), N("hv"))))},
		Emit(N("hsum")),
		// table growth and string building
		Loc([]string{"ht", "hs"}, Tab(), S("")),
		&NumFor{Var: &Decl{Name: "hj"}, Start: I(1), Limit: I(40), Body: Blk(
			Set(Ix(N("ht"), N("hj")), B("*", N("hj"), I(3))),
			Set(Ix(N("ht"), B("..", S("k"), N("hj"))), N("hj")),
			Set(N("hs"), B("..", N("hs"), N("hj"))))},
		Emit(U("#", N("ht")), Ix(N("ht"), 40), Ix(N("ht"), "k17"), U("#", N("hs"))),
		// a caught error, then once more
		Emit(CN("select", S("#"), CN("pcall", Fn(nil, Do1(CN("error", Tab(FK("x", I(1))))))))),
		Emit(C(N("hdeep"), I(30))),
	}
}

// ClosePrelude returns the declarations of mkc(id) and mkce(id): constructors
// of closable values whose __close handler emits ("close", id, err), the second
// one raising "ce<id>" afterwards.
func ClosePrelude() []Stmt {
	h1 := Fn([]string{"o", "e"}, Emit(S("close"), N("id"), N("e")))
	mt1 := Tab(FK("__close", h1))
	mkc := LocFn("mkc", Fn([]string{"id"}, Ret(CN("setmetatable", Tab(), mt1))))
	raise := Do1(CN("error", B("..", S("ce"), N("id")), I(0)))
	h2 := Fn([]string{"o", "e"}, Emit(S("close-raising"), N("id"), N("e")), raise)
	mt2 := Tab(FK("__close", h2))
	mkce := LocFn("mkce", Fn([]string{"id"}, Ret(CN("setmetatable", Tab(), mt2))))
	return []Stmt{mkc, mkce}
}
