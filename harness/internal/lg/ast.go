// Package lg ("luagen") owns an AST for Lua 5.4 programs that is independent of
// golua's, a renderer from that AST to source text with controllable spelling,
// and a generator of programs whose behaviour the manual fully determines.
// The reference interpreter for this AST is package refvm.
package lg

// Expr is an expression node (always a pointer type).
type Expr interface{ isExpr() }

// Stmt is a statement node (always a pointer type).
type Stmt interface{ isStmt() }

// Decl is a local variable declaration (identity = pointer).
type Decl struct {
	Name   string
	Attrib string // "", "const", "close"
}

type Nil struct{}
type True struct{}
type False struct{}
type Int struct{ V int64 }
type Float struct{ V float64 } // finite or inf; NaN is written 0/0 by the generator, never as a literal
type Str struct{ V string }
type Vararg struct{}

// Name is a variable reference. Decl is filled by Resolve (nil = global).
type Name struct {
	Name string
	Decl *Decl
}

type Index struct{ Obj, Key Expr }
type Call struct {
	Fn   Expr
	Args []Expr
}
type MethCall struct {
	Obj  Expr
	Name string
	Args []Expr
}
type Func struct {
	Params   []*Decl
	IsVararg bool
	Body     *Block
	Free     []*Decl // filled by Resolve: locals of enclosing functions used inside
	HasSelf  bool    // rendered through `function a:m()`; Params[0] is self
}
type Bin struct {
	Op   string
	L, R Expr
}
type Un struct {
	Op string // "-", "not", "#", "~"
	X  Expr
}
type Paren struct{ X Expr }
type Field struct {
	Key Expr // nil = positional
	Val Expr
}
type Table struct{ Fields []Field }

func (*Nil) isExpr()      {}
func (*True) isExpr()     {}
func (*False) isExpr()    {}
func (*Int) isExpr()      {}
func (*Float) isExpr()    {}
func (*Str) isExpr()      {}
func (*Vararg) isExpr()   {}
func (*Name) isExpr()     {}
func (*Index) isExpr()    {}
func (*Call) isExpr()     {}
func (*MethCall) isExpr() {}
func (*Func) isExpr()     {}
func (*Bin) isExpr()      {}
func (*Un) isExpr()       {}
func (*Paren) isExpr()    {}
func (*Table) isExpr()    {}

type Block struct{ Stmts []Stmt }

type Local struct {
	Decls []*Decl
	Exprs []Expr
}
type Assign struct {
	Targets []Expr // Name or Index
	Exprs   []Expr
}
type CallStmt struct{ Call Expr } // *Call or *MethCall
type Do struct{ Body *Block }
type While struct {
	Cond Expr
	Body *Block
}
type Repeat struct {
	Body *Block
	Cond Expr
}
type If struct {
	Conds  []Expr
	Blocks []*Block
	Else   *Block // may be nil
}
type NumFor struct {
	Var                *Decl
	Start, Limit, Step Expr // Step may be nil
	Body               *Block
}
type GenFor struct {
	Vars  []*Decl
	Exprs []Expr
	Body  *Block
}

// FuncStmt is `function a.b.c:m() … end`: Target is a Name or an Index chain
// (with Str keys); Method != "" for the colon form (Fn.HasSelf is then true and
// Fn.Params[0] is the implicit self).
type FuncStmt struct {
	Target Expr
	Method string
	Fn     *Func
}
type LocalFunc struct {
	Decl *Decl
	Fn   *Func
}
type Return struct{ Exprs []Expr }
type Break struct{}
type Goto struct{ Label string }
type Label struct{ Name string }

func (*Local) isStmt()     {}
func (*Assign) isStmt()    {}
func (*CallStmt) isStmt()  {}
func (*Do) isStmt()        {}
func (*While) isStmt()     {}
func (*Repeat) isStmt()    {}
func (*If) isStmt()        {}
func (*NumFor) isStmt()    {}
func (*GenFor) isStmt()    {}
func (*FuncStmt) isStmt()  {}
func (*LocalFunc) isStmt() {}
func (*Return) isStmt()    {}
func (*Break) isStmt()     {}
func (*Goto) isStmt()      {}
func (*Label) isStmt()     {}

// Chunk is a whole program: a vararg function body.
type Chunk struct {
	Body *Block
	Fn   *Func // the chunk as a vararg function (Body shared); set by NewChunk
}

func NewChunk(b *Block) *Chunk {
	return &Chunk{Body: b, Fn: &Func{IsVararg: true, Body: b}}
}

// Span is the range of source lines a node was rendered on.
type Span struct{ Lo, Hi int }

// Lines maps nodes (statements, and the condition expressions of compound
// statements) to the lines a rendering put them on.
type Lines map[interface{}]Span

// ---------------------------------------------------------------------------
// Resolve binds every Name to its Decl following Lua's lexical scoping rules
// and computes Func.Free.  It may be called again after the tree was edited.

type scope struct {
	parent *scope
	names  map[string]*Decl
	fn     *fnScope
}

type fnScope struct {
	parent *fnScope
	fn     *Func
	free   map[*Decl]bool
	order  []*Decl
	owned  map[*Decl]bool
}

func (s *scope) declare(d *Decl) {
	s.names[d.Name] = d
	s.fn.owned[d] = true
}

func newScope(parent *scope, fn *fnScope) *scope {
	return &scope{parent: parent, names: map[string]*Decl{}, fn: fn}
}

func (s *scope) lookup(name string) *Decl {
	for c := s; c != nil; c = c.parent {
		if d, ok := c.names[name]; ok {
			return d
		}
	}
	return nil
}

func (f *fnScope) use(d *Decl) {
	for c := f; c != nil && !c.owned[d]; c = c.parent {
		if !c.free[d] {
			c.free[d] = true
			c.order = append(c.order, d)
		}
	}
}

// Resolve resolves the chunk.
func Resolve(c *Chunk) {
	fs := &fnScope{fn: c.Fn, free: map[*Decl]bool{}, owned: map[*Decl]bool{}}
	s := newScope(nil, fs)
	resolveBlockIn(c.Body, s)
	c.Fn.Free = nil
}

func resolveBlock(b *Block, parent *scope) {
	resolveBlockIn(b, newScope(parent, parent.fn))
}

func resolveBlockIn(b *Block, s *scope) {
	for _, st := range b.Stmts {
		resolveStmt(st, s)
	}
}

func resolveFunc(f *Func, s *scope) {
	fs := &fnScope{parent: s.fn, fn: f, free: map[*Decl]bool{}, owned: map[*Decl]bool{}}
	inner := &scope{parent: s, names: map[string]*Decl{}, fn: fs}
	for _, p := range f.Params {
		inner.declare(p)
	}
	resolveBlockIn(f.Body, inner)
	f.Free = fs.order
}

func resolveStmt(st Stmt, s *scope) {
	switch n := st.(type) {
	case *Local:
		for _, e := range n.Exprs {
			resolveExpr(e, s)
		}
		for _, d := range n.Decls {
			s.declare(d)
		}
	case *Assign:
		for _, e := range n.Exprs {
			resolveExpr(e, s)
		}
		for _, e := range n.Targets {
			resolveExpr(e, s)
		}
	case *CallStmt:
		resolveExpr(n.Call, s)
	case *Do:
		resolveBlock(n.Body, s)
	case *While:
		resolveExpr(n.Cond, s)
		resolveBlock(n.Body, s)
	case *Repeat:
		inner := newScope(s, s.fn)
		resolveBlockIn(n.Body, inner)
		resolveExpr(n.Cond, inner)
	case *If:
		for i, c := range n.Conds {
			resolveExpr(c, s)
			resolveBlock(n.Blocks[i], s)
		}
		if n.Else != nil {
			resolveBlock(n.Else, s)
		}
	case *NumFor:
		resolveExpr(n.Start, s)
		resolveExpr(n.Limit, s)
		if n.Step != nil {
			resolveExpr(n.Step, s)
		}
		inner := newScope(s, s.fn)
		inner.declare(n.Var)
		resolveBlockIn(n.Body, inner)
	case *GenFor:
		for _, e := range n.Exprs {
			resolveExpr(e, s)
		}
		inner := newScope(s, s.fn)
		for _, d := range n.Vars {
			inner.declare(d)
		}
		resolveBlockIn(n.Body, inner)
	case *FuncStmt:
		resolveExpr(n.Target, s)
		resolveFunc(n.Fn, s)
	case *LocalFunc:
		s.declare(n.Decl)
		resolveFunc(n.Fn, s)
	case *Return:
		for _, e := range n.Exprs {
			resolveExpr(e, s)
		}
	}
}

func resolveExpr(e Expr, s *scope) {
	switch n := e.(type) {
	case *Name:
		n.Decl = s.lookup(n.Name)
		if n.Decl != nil {
			s.fn.use(n.Decl)
		}
	case *Index:
		resolveExpr(n.Obj, s)
		resolveExpr(n.Key, s)
	case *Call:
		resolveExpr(n.Fn, s)
		for _, a := range n.Args {
			resolveExpr(a, s)
		}
	case *MethCall:
		resolveExpr(n.Obj, s)
		for _, a := range n.Args {
			resolveExpr(a, s)
		}
	case *Func:
		resolveFunc(n, s)
	case *Bin:
		resolveExpr(n.L, s)
		resolveExpr(n.R, s)
	case *Un:
		resolveExpr(n.X, s)
	case *Paren:
		resolveExpr(n.X, s)
	case *Table:
		for _, f := range n.Fields {
			if f.Key != nil {
				resolveExpr(f.Key, s)
			}
			resolveExpr(f.Val, s)
		}
	}
}

// IsMulti reports whether e is a multi-valued expression (call or vararg).
func IsMulti(e Expr) bool {
	switch e.(type) {
	case *Call, *MethCall, *Vararg:
		return true
	}
	return false
}
