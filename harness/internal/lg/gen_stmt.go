package lg

// Program is a generated chunk plus what the harness needs to call it.
type Program struct {
	Chunk    *Chunk
	ArgKinds []Kind
	Features map[string]int
}

// Program generates one program.
func (g *Gen) Program() *Program {
	g.scopes = nil
	g.budget = g.o.Stmts
	g.depth = 0
	g.inVararg = []bool{true}
	g.loops = nil
	g.push(true)
	var stmts []Stmt
	// arguments
	na := 1 + g.n(3)
	var names []string
	var kinds []Kind
	for i := 0; i < na; i++ {
		k := g.kindOfArgs()
		v := &gvar{name: g.fresh("arg"), kind: k, mutable: g.chance(2)}
		names = append(names, v.name)
		kinds = append(kinds, k)
	}
	loc := &Local{Exprs: []Expr{&Vararg{}}}
	for _, n := range names {
		loc.Decls = append(loc.Decls, &Decl{Name: n})
	}
	stmts = append(stmts, loc)
	// declare now (defer above would be too late)
	for i, n := range names {
		g.declare(&gvar{name: n, kind: kinds[i], mutable: true})
	}
	// helper used by to-be-closed templates
	stmts = append(stmts, LocFn("mkc", Fn([]string{"id"},
		Ret(CN("setmetatable", Tab(), Tab(FK("__close", Fn([]string{"o", "e"}, Emit(S("close"), N("id"), N("e"))))))))))
	// the same with a handler that raises (its error replaces the one in flight)
	stmts = append(stmts, LocFn("mkce", Fn([]string{"id"},
		Ret(CN("setmetatable", Tab(), Tab(FK("__close", Fn([]string{"o", "e"},
			Emit(S("close-raising"), N("id"), N("e")),
			Do1(CN("error", B("..", S("ce"), N("id")), I(0)))))))))))
	stmts = append(stmts, g.stmts(true)...)
	if g.o.Health {
		stmts = append(stmts, g.healthSuite()...)
	}
	if g.chance(2) {
		stmts = append(stmts, Ret(g.retExprs()...))
	}
	g.pop()
	c := NewChunk(&Block{Stmts: stmts})
	Resolve(c)
	return &Program{Chunk: c, ArgKinds: kinds, Features: g.Features}
}

func (g *Gen) retExprs() []Expr {
	var es []Expr
	for i, n := 0, g.n(4); i < n; i++ {
		es = append(es, g.expr(Kind(g.n(4)), 2))
	}
	return es
}

// immune returns an expression whose value no call can change: a literal or
// an immutable variable.
func (g *Gen) immune(k Kind) Expr {
	if v := g.pick(k, func(v *gvar) bool { return !v.mutable }); v != nil && g.chance(2) {
		return ref(v)
	}
	switch k {
	case KInt:
		return g.intLit()
	case KFloat:
		return &Float{V: floatPool[g.n(len(floatPool))]}
	case KStr:
		return g.strLit()
	case KBool:
		return &True{}
	}
	return g.intLit()
}

// stmts generates a block's statements; top = function or chunk level.
func (g *Gen) stmts(top bool) []Stmt {
	var out []Stmt
	n := 2 + g.n(6)
	if top {
		n = g.budget
	}
	for i := 0; i < n && g.budget > 0; i++ {
		g.budget--
		g.errSite = false
		out = append(out, g.stmt()...)
	}
	return out
}

func (g *Gen) block() *Block {
	g.push(false)
	g.depth++
	b := &Block{Stmts: g.stmts(false)}
	g.depth--
	g.pop()
	return b
}

type choice struct {
	w int
	f func() []Stmt
}

func (g *Gen) stmt() []Stmt {
	deep := g.depth >= g.o.MaxDepth
	cs := []choice{
		{10, g.sLocal},
		{8, g.sAssign},
		{10, g.sEmit},
		{3, g.sTableWrite},
	}
	if !deep {
		cs = append(cs,
			choice{5, g.sIf},
			choice{3, g.sWhile},
			choice{2, g.sRepeat},
			choice{4, g.sNumFor},
			choice{4, g.sGenFor},
			choice{2, g.sDo},
			choice{4, g.sImpureFunc},
			choice{g.o.WClosure, g.sClosures},
			choice{g.o.WMeta, g.sClass},
			choice{g.o.WGoto, g.sGoto},
			choice{g.o.WPcall, g.sPcall},
			choice{g.o.WVararg, g.sVararg},
			choice{g.o.WMethod, g.sMethod},
			choice{g.o.WCoroutine, g.sCoroutine},
			choice{g.o.WTBC, g.sTBC},
			choice{g.o.WTail, g.sTailRec},
		)
	}
	cs = append(cs, choice{4, g.sImpureCall}, choice{3, g.sObjOps}, choice{2, g.sMultiAssign})
	if g.inCo > 0 {
		cs = append(cs, choice{6, g.sYield})
	}
	if g.o.WError > 0 && g.fnNest > 0 {
		cs = append(cs, choice{g.o.WError, g.sError})
	}
	total := 0
	for _, c := range cs {
		total += c.w
	}
	for tries := 0; tries < 8; tries++ {
		x := g.n(total)
		for _, c := range cs {
			if x < c.w {
				if s := c.f(); s != nil {
					return s
				}
				break
			}
			x -= c.w
		}
	}
	return g.sEmit()
}

func (g *Gen) sLocal() []Stmt {
	k := Kind(g.n(int(KFn) + 1))
	if k == KObj {
		k = KInt
	}
	if g.chance(6) {
		// several names, with the value list shorter or longer than the name list
		n := 2 + g.n(2)
		l := &Local{}
		var vs []*gvar
		ne := 1 + g.n(3)
		for i := 0; i < ne; i++ {
			l.Exprs = append(l.Exprs, g.expr(KInt, 2))
		}
		for i := 0; i < n; i++ {
			kk := KInt
			if i >= ne {
				kk = KAny
			}
			v := g.newVar(kk, true)
			vs = append(vs, v)
			l.Decls = append(l.Decls, &Decl{Name: v.name})
		}
		// distinct names within one declaration keep the order of assignment unobservable
		seen := map[string]bool{}
		for _, v := range vs {
			if seen[v.name] {
				v.name = g.fresh("u")
			}
			seen[v.name] = true
		}
		for i, v := range vs {
			l.Decls[i].Name = v.name
			g.declare(v)
		}
		g.feat("local-multi")
		return []Stmt{l}
	}
	e := g.expr(k, g.o.ExprDepth)
	mutable := !g.chance(3)
	v := g.newVar(k, mutable)
	d := &Decl{Name: v.name}
	if !mutable && g.chance(2) {
		d.Attrib = "const"
		g.feat("const")
	}
	g.declare(v)
	return []Stmt{&Local{Decls: []*Decl{d}, Exprs: []Expr{e}}}
}

func (g *Gen) sAssign() []Stmt {
	vs := g.visible(func(v *gvar) bool { return v.mutable && v.kind <= KBool })
	if len(vs) == 0 {
		return nil
	}
	v := vs[g.n(len(vs))]
	if g.chance(10) {
		// assignment to a global
		name := []string{"G1", "G2", "G3"}[g.n(3)]
		found := false
		for _, gv := range g.visible(func(v *gvar) bool { return v.global && v.name == name }) {
			_ = gv
			found = true
		}
		if !found {
			g.scopes[0].vars = append(g.scopes[0].vars, &gvar{name: name, kind: KInt, mutable: true, global: true})
		}
		g.feat("global-assign")
		return []Stmt{Set(N(name), g.expr(KInt, 2))}
	}
	return []Stmt{Set(ref(v), g.expr(v.kind, g.o.ExprDepth))}
}

func (g *Gen) sMultiAssign() []Stmt {
	vs := g.visible(func(v *gvar) bool { return v.mutable && v.kind == KInt && !v.global })
	if len(vs) < 2 {
		return nil
	}
	a, b := vs[g.n(len(vs))], vs[g.n(len(vs))]
	if a.name == b.name {
		return nil
	}
	g.feat("multi-assign")
	if g.chance(3) {
		// the manual's example: in `i, t[i] = i + 1, v` the i of t[i] is evaluated
		// before i is assigned (all target subexpressions and all values are
		// evaluated before any assignment); the targets are distinct locations, so
		// the order of the assignments themselves is not observable
		t := g.fresh("q")
		g.feat("multi-assign-aliased-index")
		pre := Loc1(t, Tab(FV(I(10)), FV(I(20)), FV(I(30)), FV(I(40)), FV(I(50))))
		idx := g.fresh("ix")
		var st Stmt
		switch g.n(4) {
		case 0:
			st = &Assign{Targets: []Expr{N(idx), Ix(N(t), N(idx))}, Exprs: []Expr{B("+", N(idx), I(1)), g.immune(KInt)}}
		case 1:
			st = &Assign{Targets: []Expr{Ix(N(t), N(idx)), N(idx)}, Exprs: []Expr{g.immune(KInt), B("+", N(idx), I(2))}}
		case 2:
			// the table variable itself is replaced in the same statement
			st = &Assign{Targets: []Expr{N(t), Ix(N(t), N(idx))}, Exprs: []Expr{Tab(FV(I(7))), g.immune(KInt)}}
		default:
			st = &Assign{Targets: []Expr{N(idx), Ix(N(t), B("+", N(idx), I(1))), Ix(N(t), N(idx))}, Exprs: []Expr{I(4), S("a"), S("b")}}
		}
		old := g.fresh("old")
		return []Stmt{pre, Loc1(old, N(t)), Loc1(idx, g.smallInt(1, 3)), st,
			Emit(N(idx), Ix(N(old), 1), Ix(N(old), 2), Ix(N(old), 3), Ix(N(old), 4), Ix(N(old), 5), U("#", N(t)))}
	}
	if g.chance(2) {
		return []Stmt{&Assign{Targets: []Expr{ref(a), ref(b)}, Exprs: []Expr{ref(b), ref(a)}}}
	}
	return []Stmt{&Assign{Targets: []Expr{ref(a), ref(b)}, Exprs: []Expr{g.expr(KInt, 2), g.expr(KInt, 2), g.expr(KInt, 1)}}}
}

func (g *Gen) sEmit() []Stmt {
	var args []Expr
	for i, n := 0, 1+g.n(4); i < n; i++ {
		k := Kind(g.n(int(KBool) + 1))
		if g.chance(8) {
			k = KAny
		}
		args = append(args, g.expr(k, g.o.ExprDepth))
	}
	if g.inVararg[len(g.inVararg)-1] && g.chance(6) {
		args = append(args, &Vararg{})
		g.feat("emit-vararg")
	} else if g.chance(8) {
		args = append(args, P(&Vararg{}))[:len(args)]
	}
	return []Stmt{Emit(args...)}
}

func (g *Gen) sTableWrite() []Stmt {
	if v := g.pick(KSeq, nil); v != nil && g.chance(2) {
		// append keeps the table a proper sequence
		g.feat("seq-append")
		return []Stmt{Set(Ix(ref(v), B("+", U("#", ref(v)), I(1))), g.expr(KInt, 2))}
	}
	if v := g.pick(KRec, nil); v != nil {
		g.feat("rec-write")
		return []Stmt{Set(Ix(ref(v), g.identStr()), g.expr(KInt, 2))}
	}
	return nil
}

func (g *Gen) sIf() []Stmt {
	s := &If{}
	for i, n := 0, 1+g.n(3); i < n; i++ {
		s.Conds = append(s.Conds, g.expr(KBool, 2))
		s.Blocks = append(s.Blocks, g.block())
	}
	if g.chance(2) {
		s.Else = g.block()
	}
	g.maybeExit(s.Blocks[0])
	return []Stmt{s}
}

// maybeExit appends break / return / goto-continue at the end of a block when
// the context allows it.
func (g *Gen) maybeExit(b *Block) {
	if !g.chance(3) {
		return
	}
	if len(b.Stmts) > 0 {
		switch b.Stmts[len(b.Stmts)-1].(type) {
		case *Return, *Break, *Goto:
			return
		}
	}
	switch {
	case len(g.loops) > 0 && g.chance(2):
		if lbl := g.loops[len(g.loops)-1]; lbl != "" && g.chance(2) {
			b.Stmts = append(b.Stmts, &Goto{Label: lbl})
			g.feat("goto-continue")
			return
		}
		b.Stmts = append(b.Stmts, &Break{})
		g.feat("break")
	case g.fnNest > 0:
		b.Stmts = append(b.Stmts, Ret(g.retExprs()...))
		g.feat("early-return")
	}
}

// loopBody generates a loop body; with a continue label at its end sometimes.
func (g *Gen) loopBody(pre func()) *Block {
	lbl := ""
	if g.o.WGoto > 0 && g.chance(3) {
		g.labelCtr++
		lbl = "cont" + itoa(g.labelCtr)
	}
	g.loops = append(g.loops, lbl)
	g.push(false)
	g.depth++
	if pre != nil {
		pre()
	}
	var head []Stmt
	if g.o.WTBC > 0 && g.n(40) < g.o.WTBC {
		// a to-be-closed variable directly in the loop body: closed at the end of
		// every iteration and by break / goto / return / error out of the loop
		head = append(head, g.tbcDecl())
		g.feat("tbc-in-loop")
	}
	b := &Block{Stmts: append(head, g.stmts(false)...)}
	g.depth--
	g.pop()
	g.loops = g.loops[:len(g.loops)-1]
	if lbl != "" {
		b.Stmts = append(b.Stmts, &Label{Name: lbl})
	}
	return b
}

func itoa(i int) string {
	s := ""
	if i == 0 {
		return "0"
	}
	for i > 0 {
		s = string(rune('0'+i%10)) + s
		i /= 10
	}
	return s
}

func (g *Gen) sWhile() []Stmt {
	cnt := g.newVar(KInt, false)
	cnt.name = g.fresh("w")
	g.declare(cnt)
	body := g.loopBody(nil)
	inc := Set(N(cnt.name), B("+", N(cnt.name), I(1)))
	body.Stmts = append([]Stmt{inc}, body.Stmts...)
	cond := B("and", B("<", N(cnt.name), g.smallInt(0, 4)), g.expr(KBool, 2))
	if g.chance(2) {
		cond = B("<", N(cnt.name), g.smallInt(0, 4))
	}
	g.feat("while")
	return []Stmt{Loc1(cnt.name, I(0)), &While{Cond: cond, Body: body}}
}

func (g *Gen) sRepeat() []Stmt {
	cnt := &gvar{name: g.fresh("w"), kind: KInt}
	g.declare(cnt)
	// the condition may use a local of the body
	g.loops = append(g.loops, "")
	g.push(false)
	g.depth++
	inner := &gvar{name: g.fresh("i"), kind: KInt}
	stmts := []Stmt{Set(N(cnt.name), B("+", N(cnt.name), I(1))), Loc1(inner.name, g.expr(KInt, 2))}
	g.declare(inner)
	stmts = append(stmts, g.stmts(false)...)
	// no break/return generated by stmts at this level, so the until sees `inner`
	cond := B("or", B(">=", N(cnt.name), g.smallInt(1, 3)), B("==", N(inner.name), g.expr(KInt, 1)))
	g.depth--
	g.pop()
	g.loops = g.loops[:len(g.loops)-1]
	g.feat("repeat")
	return []Stmt{Loc1(cnt.name, I(0)), &Repeat{Body: &Block{Stmts: stmts}, Cond: cond}}
}

func (g *Gen) sNumFor() []Stmt {
	v := &gvar{name: g.fresh("i"), kind: KInt, mutable: g.chance(4)}
	s := &NumFor{Var: &Decl{Name: v.name}}
	switch g.n(6) {
	case 0:
		s.Start, s.Limit = g.smallInt(-2, 3), g.smallInt(-2, 6)
	case 1:
		s.Start, s.Limit, s.Step = g.smallInt(0, 6), g.smallInt(-3, 3), g.smallInt(-3, -1)
	case 2:
		s.Start, s.Limit, s.Step = g.smallInt(0, 3), g.smallInt(3, 12), g.smallInt(1, 4)
	case 3:
		// float loop with exactly representable steps
		v.kind = KFloat
		s.Start, s.Limit, s.Step = &Float{V: 0.5}, &Float{V: 2.75}, &Float{V: 0.25 * float64(1+g.n(3))}
		g.feat("for-float")
	case 4:
		// near the integer limits: must not wrap around
		s.Start, s.Limit, s.Step = &Int{V: 9223372036854775805}, &Int{V: 9223372036854775807}, g.smallInt(1, 3)
		g.feat("for-maxint")
	default:
		// computed limit, at most 4 iterations
		s.Start, s.Limit = g.smallInt(1, 2), B("%", g.expr(KInt, 1), I(5))
	}
	s.Body = g.loopBody(func() { g.declare(v) })
	g.feat("numeric-for")
	return []Stmt{s}
}

func (g *Gen) sGenFor() []Stmt {
	switch g.n(4) {
	case 0, 1:
		seq := g.expr(KSeq, 2)
		k, v := &gvar{name: g.fresh("k"), kind: KInt}, &gvar{name: g.fresh("e"), kind: KInt}
		s := &GenFor{Vars: []*Decl{{Name: k.name}, {Name: v.name}}, Exprs: []Expr{CN("ipairs", seq)}}
		s.Body = g.loopBody(func() { g.declare(k); g.declare(v) })
		g.feat("for-ipairs")
		return []Stmt{s}
	case 2:
		// order-insensitive fold over pairs
		t := g.pick(KRec, nil)
		if t == nil {
			t = g.pick(KSeq, nil)
		}
		if t == nil {
			return nil
		}
		sum, cnt := g.fresh("sum"), g.fresh("cnt")
		body := Blk(Set(N(sum), B("+", N(sum), N("pv"))), Set(N(cnt), B("+", N(cnt), I(1))))
		g.feat("for-pairs-fold")
		return []Stmt{Loc([]string{sum, cnt}, I(0), I(0)),
			&GenFor{Vars: []*Decl{{Name: "pk"}, {Name: "pv"}}, Exprs: []Expr{CN("pairs", ref(t))}, Body: body},
			Emit(N(sum), N(cnt))}
	default:
		// closure iterator with explicit state and control variable
		it := g.fresh("iter")
		lim := g.smallInt(0, 4)
		iter := LocFn(it, Fn([]string{"st", "c"},
			IfS(B("<", N("c"), N("st")), Blk(Ret(B("+", N("c"), I(1)), B("*", N("c"), I(2)))), nil)))
		if g.o.ErrInMeta && g.chance(3) {
			// an iterator that raises in the middle of the loop
			iter = LocFn(it, Fn([]string{"st", "c"},
				IfS(B("==", N("c"), I(2)), Blk(Do1(CN("error", g.errValue()))), nil),
				IfS(B("<", N("c"), N("st")), Blk(Ret(B("+", N("c"), I(1)), B("*", N("c"), I(2)))), nil)))
			g.feat("iterator-raises")
		}
		k, v := &gvar{name: g.fresh("k"), kind: KInt}, &gvar{name: g.fresh("e"), kind: KInt}
		s := &GenFor{Vars: []*Decl{{Name: k.name}, {Name: v.name}}, Exprs: []Expr{N(it), lim, I(0)}}
		if g.o.WTBC > 0 && g.chance(3) {
			// the fourth value of the generic for is a closing value
			g.labelCtr++
			s.Exprs = append(s.Exprs, CN("mkc", I(int64(g.labelCtr))))
			g.feat("for-closing-value")
		}
		s.Body = g.loopBody(func() { g.declare(k); g.declare(v) })
		g.feat("for-closure-iterator")
		return []Stmt{iter, s}
	}
}

func (g *Gen) sDo() []Stmt {
	g.feat("do-block")
	return []Stmt{&Do{Body: g.block()}}
}

// funcBody generates the body of an impure function with the given params.
func (g *Gen) funcBody(params []*gvar, vararg bool, inCo bool) *Block {
	g.push(true)
	g.fnNest++
	g.depth++
	g.inVararg = append(g.inVararg, vararg)
	savedLoops := g.loops
	g.loops = nil
	savedCo := g.inCo
	if inCo {
		g.inCo = 1
	} else {
		g.inCo = 0
	}
	for _, p := range params {
		g.declare(p)
	}
	saved := g.budget
	if g.budget > 8 {
		g.budget = 8
	}
	var st []Stmt
	if g.o.WTBC > 0 && g.n(40) < g.o.WTBC {
		// pending close at function level: `return f()` below it is not a tail call
		st = append(st, g.tbcDecl())
		g.feat("tbc-in-function")
	}
	st = append(st, g.stmts(false)...)
	g.budget = saved - (8 - g.budget)
	if g.budget < 0 {
		g.budget = 0
	}
	if len(st) == 0 || !isExit(st[len(st)-1]) {
		if g.chance(4) {
			// no explicit return
		} else {
			st = append(st, Ret(g.retExprs()...))
		}
	}
	g.inCo = savedCo
	g.loops = savedLoops
	g.inVararg = g.inVararg[:len(g.inVararg)-1]
	g.depth--
	g.fnNest--
	g.pop()
	return &Block{Stmts: st}
}

func isExit(s Stmt) bool {
	switch s.(type) {
	case *Return, *Break, *Goto:
		return true
	}
	return false
}

func (g *Gen) sImpureFunc() []Stmt {
	v := &gvar{name: g.fresh("fn"), kind: KFn, impure: true}
	np := g.n(3)
	var params []*gvar
	f := &Func{}
	for i := 0; i < np; i++ {
		p := &gvar{name: g.fresh("p"), kind: KInt, mutable: g.chance(2)}
		params = append(params, p)
		f.Params = append(f.Params, &Decl{Name: p.name})
	}
	// visible inside its own body: recursion is possible but unbounded recursion is
	// prevented because calls to impure functions are only generated for functions
	// declared before (see sImpureCall: v is declared after the body)
	f.Body = g.funcBody(params, false, false)
	g.declare(v)
	g.feat("impure-function")
	if g.chance(3) {
		// `local f = function` form
		return []Stmt{Loc1(v.name, f)}
	}
	return []Stmt{&LocalFunc{Decl: &Decl{Name: v.name}, Fn: f}}
}

// sImpureCall: a statement containing exactly one call of an impure function.
func (g *Gen) sImpureCall() []Stmt {
	v := g.pick(KFn, func(v *gvar) bool { return v.impure })
	if v == nil {
		return nil
	}
	var args []Expr
	for i, n := 0, g.n(4); i < n; i++ {
		args = append(args, g.expr(KInt, 2))
	}
	call := C(ref(v), args...)
	g.feat("impure-call")
	switch g.n(6) {
	case 0:
		return []Stmt{Do1(call)}
	case 1:
		return []Stmt{Emit(call)} // all results
	case 2:
		return []Stmt{Emit(P(call))} // truncated to one
	case 3:
		a, b := g.newVar(KAny, true), g.newVar(KAny, true)
		if a.name == b.name {
			b.name = g.fresh("u")
		}
		g.declare(a)
		g.declare(b)
		return []Stmt{Loc([]string{a.name, b.name}, call)}
	case 4:
		return []Stmt{Emit(g.immune(KInt), call)}
	default:
		return []Stmt{Emit(CN("select", S("#"), call))}
	}
}

// sClosures: closures created in a loop capture a fresh variable per
// iteration; they are called after the loop.
func (g *Gen) sClosures() []Stmt {
	fs := g.fresh("fs")
	i := g.fresh("i")
	up := g.fresh("up")
	n := g.smallInt(1, 4)
	var body []Stmt
	body = append(body, Loc1(up, B("*", N(i), g.intLit())))
	getter := Fn(nil, Ret(B("+", N(i), N(up))))
	setter := Fn([]string{"d"}, Set(N(up), B("+", N(up), N("d"))), Ret(N(up)))
	body = append(body, Set(Ix(N(fs), N(i)), Tab(FK("get", getter), FK("add", setter))))
	var out []Stmt
	out = append(out, Loc1(fs, Tab()))
	switch g.n(3) {
	case 0:
		out = append(out, &NumFor{Var: &Decl{Name: i}, Start: I(1), Limit: n, Body: Blk(body...)})
	case 1:
		// while loop: the local declared in the body is fresh per iteration, the counter is not
		c := g.fresh("c")
		body2 := append([]Stmt{Set(N(c), B("+", N(c), I(1))), Loc1(i, N(c))}, body...)
		out = append(out, Loc1(c, I(0)), &While{Cond: B("<", N(c), n), Body: Blk(body2...)})
	default:
		out = append(out, &GenFor{Vars: []*Decl{{Name: i}, {Name: "_e"}}, Exprs: []Expr{CN("ipairs", Tab(FV(I(5)), FV(I(6)), FV(I(7))))}, Body: Blk(body...)})
	}
	// use them: each pair shares `up`, different iterations do not
	j := g.fresh("j")
	use := Blk(
		Emit(C(Ix(Ix(N(fs), N(j)), "get"))),
		Emit(C(Ix(Ix(N(fs), N(j)), "add"), g.intLit())),
		Emit(C(Ix(Ix(N(fs), N(j)), "get"))),
	)
	out = append(out, &NumFor{Var: &Decl{Name: j}, Start: I(1), Limit: U("#", N(fs)), Body: use})
	g.feat("closures-in-loop")
	return out
}

var classOps = []string{"__add", "__sub", "__mul", "__div", "__mod", "__idiv", "__pow", "__band", "__bor", "__bxor", "__shl", "__shr", "__concat", "__eq", "__lt", "__le", "__unm", "__bnot", "__len", "__call", "__index", "__newindex", "__tostring"}

var opOfEvent = map[string]string{"__add": "+", "__sub": "-", "__mul": "*", "__div": "/", "__mod": "%", "__idiv": "//", "__pow": "^", "__band": "&", "__bor": "|",
	"__bxor": "~", "__shl": "<<", "__shr": ">>", "__concat": "..", "__eq": "==", "__lt": "<", "__le": "<="}

// val(x): the payload of an operand that may be an object or a plain number.
func payload(x string) Expr {
	return P(B("or", B("and", B("==", CN("type", N(x)), S("table")), CN("rawget", N(x), S("v"))), N(x)))
}

// sClass defines a metatable with a random subset of metamethods and two objects.
func (g *Gen) sClass() []Stmt {
	mt := g.fresh("mt")
	tracing := g.chance(3)
	cls := &class{tracing: tracing}
	var out []Stmt
	out = append(out, Loc1(mt, Tab()))
	mk := g.fresh("mk")
	out = append(out, LocFn(mk, Fn([]string{"v"}, Ret(CN("setmetatable", Tab(FK("v", N("v"))), N(mt))))))
	trace := func(ev string, args ...Expr) []Stmt {
		var st []Stmt
		if tracing {
			st = append(st, Emit(append([]Expr{S(ev)}, args...)...))
		}
		if tracing && g.o.ErrInMeta && g.chance(4) && ev != "__call" && ev != "__index" && ev != "__newindex" {
			// the metamethod raises for some operands (objects of tracing classes are
			// only used in single-operation statements)
			st = append(st, IfS(B("==", B("%", payload("a"), I(3)), I(0)), Blk(Do1(CN("error", g.errValue()))), nil))
			g.feat("metamethod-raises")
		}
		return st
	}
	nops := 3 + g.n(6)
	seen := map[string]bool{}
	for i := 0; i < nops; i++ {
		ev := classOps[g.n(len(classOps))]
		if seen[ev] {
			continue
		}
		seen[ev] = true
		cls.ops = append(cls.ops, ev)
		var f *Func
		switch ev {
		case "__eq":
			f = Fn([]string{"a", "b"}, append(trace(ev), Ret(B("==", B("%", payload("a"), I(10)), B("%", payload("b"), I(10)))))...)
		case "__lt", "__le":
			f = Fn([]string{"a", "b"}, append(trace(ev), Ret(B(opOfEvent[ev], payload("a"), payload("b"))))...)
		case "__concat":
			f = Fn([]string{"a", "b"}, append(trace(ev), Ret(C(N(mk), B("-", B("*", payload("a"), I(3)), payload("b")))))...)
		case "__unm", "__bnot":
			f = Fn([]string{"a", "b"}, append(trace(ev, B("==", N("a"), N("b"))), Ret(C(N(mk), B("-", I(1), payload("a")))))...)
		case "__len":
			f = Fn([]string{"a"}, append(trace(ev), Ret(B("+", payload("a"), I(100))))...)
		case "__call":
			f = Fn([]string{"self", "..."}, append(trace(ev, CN("select", S("#"), &Vararg{})), Ret(payload("self"), &Vararg{}))...)
		case "__index":
			if g.chance(2) {
				f = Fn([]string{"t", "k"}, append(trace(ev, N("k")), Ret(B("..", S("idx:"), CN("tostring", N("k")))))...)
			} else {
				// a table: class-style inheritance
				out = append(out, Set(Ix(N(mt), ev), Tab(FK("inherited", I(77)), FK("twice", Fn([]string{"self"}, Ret(B("*", payload("self"), I(2))))))))
				continue
			}
		case "__newindex":
			f = Fn([]string{"t", "k", "nv"}, append(trace(ev, N("k"), N("nv")), Do1(CN("rawset", N("t"), B("..", S("set_"), CN("tostring", N("k"))), N("nv"))))...)
		case "__tostring":
			f = Fn([]string{"a"}, append(trace(ev), Ret(B("..", S("obj:"), payload("a"))))...)
		default:
			// arithmetic / bitwise: non-commutative combination shows operand order
			f = Fn([]string{"a", "b"}, append(trace(ev), Ret(C(N(mk), B("-", B("*", payload("a"), I(2)), payload("b")))))...)
		}
		out = append(out, Set(Ix(N(mt), ev), f))
	}
	if g.chance(6) {
		out = append(out, Set(Ix(N(mt), "__metatable"), S("locked")))
		cls.ops = append(cls.ops, "__metatable")
	}
	for i := 0; i < 2; i++ {
		o := &gvar{name: g.fresh("o"), kind: KObj, cls: cls}
		out = append(out, Loc1(o.name, C(N(mk), g.smallInt(-3, 9))))
		g.declare(o)
	}
	g.feat("class")
	if tracing {
		g.feat("class-tracing")
	}
	return out
}

// sObjOps applies one operator to objects (a single operation per statement:
// the metamethod may emit).
func (g *Gen) sObjOps() []Stmt {
	o := g.pick(KObj, nil)
	if o == nil {
		return nil
	}
	o2 := g.pick(KObj, func(v *gvar) bool { return v.cls == o.cls })
	other := []Expr{ref(o2), g.immune(KInt), g.immune(KInt)}[g.n(3)]
	a, b := Expr(ref(o)), other
	if g.chance(3) {
		a, b = b, a
	}
	g.feat("object-op")
	val := func(e Expr) Expr { return e }
	switch g.n(12) {
	case 0, 1, 2:
		op := []string{"+", "-", "*", "/", "%", "//", "^", "&", "|", "~", "<<", ">>", ".."}[g.n(13)]
		// mostly an operator whose metamethod the class defines
		var defined []string
		for _, ev := range o.cls.ops {
			if sym, ok := opOfEvent[ev]; ok && ev != "__eq" && ev != "__lt" && ev != "__le" {
				defined = append(defined, sym)
			}
		}
		if len(defined) > 0 && !g.chance(4) {
			op = defined[g.n(len(defined))]
		}
		r := g.fresh("r")
		return []Stmt{Loc1(r, val(B(op, a, b))), Emit(CN("type", N(r)), B("and", B("==", CN("type", N(r)), S("table")), CN("rawget", N(r), S("v"))))}
	case 3:
		op := []string{"==", "~=", "<", "<=", ">", ">="}[g.n(6)]
		return []Stmt{Emit(B(op, ref(o), ref(o2)))}
	case 4:
		return []Stmt{Emit(B([]string{"==", "~="}[g.n(2)], ref(o), g.immune(KInt)))}
	case 5:
		r := g.fresh("r")
		return []Stmt{Loc1(r, U([]string{"-", "~"}[g.n(2)], ref(o))), Emit(CN("type", N(r)), B("and", B("==", CN("type", N(r)), S("table")), CN("rawget", N(r), S("v"))))}
	case 6:
		return []Stmt{Emit(U("#", ref(o)))}
	case 7:
		return []Stmt{Emit(C(ref(o), g.immune(KInt), g.immune(KStr)))}
	case 8:
		return []Stmt{Emit(Ix(ref(o), []string{"v", "missing", "inherited", "k1"}[g.n(4)]))}
	case 9:
		k := []string{"v", "fresh", "k1"}[g.n(3)]
		return []Stmt{Set(Ix(ref(o), k), g.immune(KInt)), Emit(CN("rawget", ref(o), S(k)), CN("rawget", ref(o), S("set_"+k)))}
	case 10:
		if g.chance(2) {
			// a float key with an integer value denotes the integer key: writing
			// t[2.0] when the raw field t[2] exists is a raw update (no __newindex),
			// reading it finds the field (no __index)
			g.feat("float-key-normalised")
			k := int64(2 + g.n(3))
			fk := &Float{V: float64(k)}
			return []Stmt{
				Do1(CN("rawset", ref(o), I(k), I(7))),
				Set(Ix(ref(o), fk), g.immune(KInt)),
				Emit(CN("rawget", ref(o), I(k)), CN("rawget", ref(o), fk), CN("rawget", ref(o), S("set_"+itoa(int(k)))), B("==", Ix(ref(o), fk), Ix(ref(o), I(k))), Dot("math", "type")),
				Emit(C(Dot("math", "type"), P(CN("next", Tab(FE(fk, T())))))),
			}
		}
		return []Stmt{Emit(CN("tostring", ref(o)))}
	default:
		return []Stmt{Emit(B("==", CN("getmetatable", ref(o)), CN("getmetatable", ref(o2))), CN("type", CN("getmetatable", ref(o))))}
	}
}

func (g *Gen) sGoto() []Stmt {
	g.labelCtr++
	lbl := "L" + itoa(g.labelCtr)
	switch g.n(3) {
	case 0:
		// backward jump with fuel
		c := g.fresh("c")
		g.feat("goto-backward")
		return []Stmt{&Do{Body: Blk(
			Loc1(c, I(0)),
			&Label{Name: lbl},
			Set(N(c), B("+", N(c), I(1))),
			Emit(S("loop"), N(c)),
			IfS(B("<", N(c), g.smallInt(1, 3)), Blk(&Goto{Label: lbl}), nil),
		)}}
	case 1:
		// break out of two loops
		i, j := g.fresh("i"), g.fresh("j")
		g.feat("goto-nested-break")
		return []Stmt{&Do{Body: Blk(
			&NumFor{Var: &Decl{Name: i}, Start: I(1), Limit: I(3), Body: Blk(
				&NumFor{Var: &Decl{Name: j}, Start: I(1), Limit: I(3), Body: Blk(
					Emit(N(i), N(j)),
					IfS(B("==", B("*", N(i), N(j)), g.smallInt(1, 6)), Blk(&Goto{Label: lbl}), nil),
				)},
			)},
			&Label{Name: lbl},
			Emit(S("out")),
		)}}
	default:
		// forward jump over statements
		g.feat("goto-forward")
		return []Stmt{&Do{Body: Blk(
			IfS(g.expr(KBool, 2), Blk(&Goto{Label: lbl}), nil),
			Emit(S("not skipped")),
			&Label{Name: lbl},
		)}}
	}
}

// errValue returns an error value expression and marks features.
func (g *Gen) errValue() Expr {
	switch g.n(7) {
	case 0, 1:
		g.feat("error-string")
		return S([]string{"boom", "bad thing", "", "e:1: fake"}[g.n(4)])
	case 2:
		g.feat("error-table")
		return Tab(FK("code", g.intLit()))
	case 3:
		g.feat("error-int")
		return g.intLit()
	case 4:
		g.feat("error-nil")
		return Nl()
	case 5:
		if v := g.pick(KRec, nil); v != nil {
			g.feat("error-table-identity")
			return ref(v)
		}
	}
	g.feat("error-bool")
	return Fl()
}

func (g *Gen) sError() []Stmt {
	args := []Expr{g.errValue()}
	if s, ok := args[0].(*Str); ok && g.chance(3) {
		_ = s
		args = append(args, I(int64(g.n(3)))) // level 0, 1 or 2
		g.feat("error-level")
	}
	st := Do1(CN("error", args...))
	if g.chance(2) {
		return []Stmt{IfS(g.expr(KBool, 2), Blk(st), nil)}
	}
	return []Stmt{st}
}

func (g *Gen) sPcall() []Stmt {
	ok, e := g.fresh("ok"), g.fresh("e")
	body := g.funcBody(nil, false, g.inCo > 0 && !g.o.NoYieldInPcall)
	if g.chance(2) {
		// make sure something fails sometimes
		g.errSite = false
		// (the condition ends up inside the function: no `...` of the enclosing one)
		g.inVararg = append(g.inVararg, false)
		cond := g.expr(KBool, 1)
		g.inVararg = g.inVararg[:len(g.inVararg)-1]
		body.Stmts = append([]Stmt{IfS(cond, Blk(Do1(CN("error", g.errValue()))), nil)}, body.Stmts...)
	}
	f := &Func{Body: body}
	g.feat("pcall")
	show := Emit(N(ok), CN("type", N(e)), N(e))
	switch g.n(4) {
	case 0:
		h := Fn([]string{"m"}, Emit(S("handler"), N("m")), Ret(Tab(FK("wrapped", N("m")))))
		switch g.n(4) {
		case 0:
			// several results: only the first one replaces the error value
			h = Fn([]string{"m"}, Emit(S("handler"), N("m")), Ret(Tab(FK("wrapped", N("m"))), S("second"), I(3)))
			g.feat("xpcall-handler-multi-results")
		case 1:
			// no result: the error value becomes nil
			h = Fn([]string{"m"}, Emit(S("handler"), N("m")))
			g.feat("xpcall-handler-no-result")
		}
		g.feat("xpcall")
		r := g.fresh("r")
		return []Stmt{Loc([]string{ok, r}, CN("xpcall", f, h)), Emit(N(ok), CN("type", N(r)), B("and", B("==", CN("type", N(r)), S("table")), Ix(N(r), "wrapped")))}
	case 1:
		return []Stmt{Emit(CN("pcall", f))}
	default:
		return []Stmt{Loc([]string{ok, e}, CN("pcall", f)), show}
	}
}

func (g *Gen) sVararg() []Stmt {
	v := g.fresh("va")
	var body []Stmt
	body = append(body, Emit(CN("select", S("#"), &Vararg{})))
	switch g.n(5) {
	case 0:
		body = append(body, Loc([]string{"x1", "x2"}, &Vararg{}), Emit(N("x1"), N("x2")))
	case 1:
		body = append(body, Loc1("tt", Tab(FV(&Vararg{}))), Emit(U("#", N("tt"))))
	case 2:
		body = append(body, Loc1("pk", Dot("table", "pack")), Loc1("tt", C(N("pk"), &Vararg{})), Emit(Ix(N("tt"), "n"), Ix(N("tt"), 1)))
	case 3:
		body = append(body, Emit(P(&Vararg{})), Emit(&Vararg{}, S("end")), Emit(S("first"), &Vararg{}))
	case 4:
		body = append(body, Emit(CN("select", g.smallInt(-2, 3), &Vararg{})))
	}
	body = append(body, Ret(&Vararg{}))
	if g.chance(2) {
		body[len(body)-1] = Ret(CN("select", I(2), &Vararg{}))
	}
	f := Fn([]string{"a", "..."}, body...)
	var calls []Stmt
	for i, n := 0, 1+g.n(3); i < n; i++ {
		var args []Expr
		for j, m := 0, g.n(5); j < m; j++ {
			args = append(args, []Expr{g.immune(KInt), Nl(), g.immune(KStr)}[g.n(3)])
		}
		if len(args) > 0 && g.chance(3) {
			// trailing multi-value expansion
			args = append(args, C(Dot("table", "unpack"), Tab(FV(I(7)), FV(I(8)), FV(I(9)))))
		}
		calls = append(calls, Emit(C(N(v), args...)))
	}
	g.feat("vararg-function")
	return append([]Stmt{LocFn(v, f)}, calls...)
}

func (g *Gen) sMethod() []Stmt {
	obj := g.fresh("obj")
	var out []Stmt
	out = append(out, Loc1(obj, Tab(FK("n", g.intLit()), FK("inner", Tab(FK("n", g.intLit()))))))
	// function obj:add(d) / function obj.inner.get(self) / function obj.inner:bump()
	out = append(out, &FuncStmt{Target: N(obj), Method: "add", Fn: &Func{HasSelf: true, Params: []*Decl{{Name: "self"}, {Name: "d"}},
		Body: Blk(Set(Ix(N("self"), "n"), B("+", Ix(N("self"), "n"), N("d"))), Ret(N("self")))}})
	out = append(out, &FuncStmt{Target: Ix(N(obj), "inner"), Method: "bump", Fn: &Func{HasSelf: true, Params: []*Decl{{Name: "self"}},
		Body: Blk(Set(Ix(N("self"), "n"), B("*", Ix(N("self"), "n"), I(2))), Ret(Ix(N("self"), "n"), N("self")))}})
	out = append(out, &FuncStmt{Target: Ix(Ix(N(obj), "inner"), "plain"), Fn: Fn([]string{"x"}, Ret(B("-", N("x"), I(1))))})
	out = append(out,
		Emit(Ix(M(M(N(obj), "add", g.immune(KInt)), "add", g.immune(KInt)), "n")),
		Emit(M(Ix(N(obj), "inner"), "bump")),
		Emit(C(Ix(Ix(N(obj), "inner"), "plain"), g.immune(KInt))),
		Emit(P(M(Ix(N(obj), "inner"), "bump"))),
	)
	g.feat("methods")
	return out
}

func (g *Gen) sYield() []Stmt {
	g.feat("yield")
	r := g.newVar(KAny, true)
	g.declare(r)
	var args []Expr
	for i, n := 0, g.n(3); i < n; i++ {
		args = append(args, g.expr(KInt, 1))
	}
	return []Stmt{Loc1(r.name, C(Dot("coroutine", "yield"), args...)), Emit(S("resumed"), N(r.name))}
}

func (g *Gen) sCoroutine() []Stmt {
	co := g.fresh("co")
	p := &gvar{name: g.fresh("p"), kind: KInt}
	body := g.funcBody([]*gvar{p}, false, true)
	f := &Func{Params: []*Decl{{Name: p.name}}, Body: body}
	var out []Stmt
	g.feat("coroutine")
	if g.chance(3) {
		// generator in a for-in loop
		gen := Fn(nil, &NumFor{Var: &Decl{Name: "gi"}, Start: I(1), Limit: g.smallInt(0, 4), Body: Blk(Do1(C(Dot("coroutine", "yield"), N("gi"), B("*", N("gi"), N("gi")))))})
		g.feat("coroutine-wrap-generator")
		return []Stmt{&GenFor{Vars: []*Decl{{Name: "ga"}, {Name: "gb"}}, Exprs: []Expr{C(Dot("coroutine", "wrap"), gen)}, Body: Blk(Emit(N("ga"), N("gb")))}}
	}
	if g.chance(4) {
		w := g.fresh("wf")
		out = append(out, Loc1(w, C(Dot("coroutine", "wrap"), f)))
		for i, n := 0, 1+g.n(3); i < n; i++ {
			out = append(out, Emit(CN("pcall", N(w), g.immune(KInt))))
		}
		g.feat("coroutine-wrap")
		return out
	}
	out = append(out, Loc1(co, C(Dot("coroutine", "create"), f)))
	out = append(out, Emit(C(Dot("coroutine", "status"), N(co))))
	for i, n := 0, 1+g.n(4); i < n; i++ {
		out = append(out, Emit(C(Dot("coroutine", "resume"), N(co), g.immune(KInt), g.immune(KStr))))
		if g.chance(3) {
			out = append(out, Emit(C(Dot("coroutine", "status"), N(co))))
		}
	}
	if g.chance(3) {
		out = append(out, Emit(C(Dot("coroutine", "close"), N(co))), Emit(C(Dot("coroutine", "status"), N(co))))
		g.feat("coroutine-close")
	}
	if g.chance(5) {
		out = append(out, Emit(C(Dot("coroutine", "isyieldable")), CN("select", I(2), C(Dot("coroutine", "running")))))
	}
	return out
}

func (g *Gen) sTBC() []Stmt {
	g.feat("tbc")
	g.tbcDepth++
	defer func() { g.tbcDepth-- }()
	g.labelCtr++
	id := int64(g.labelCtr)
	g.push(false)
	g.depth++
	var st []Stmt
	st = append(st, LocAttr(g.fresh("c"), "close", CN("mkc", I(id))))
	if g.chance(3) {
		st = append(st, LocAttr(g.fresh("c"), "close", []Expr{CN("mkc", I(id+100)), Nl(), Fl()}[g.n(3)]))
	}
	if g.chance(4) {
		st = append(st, g.tbcDecl())
	}
	if g.o.ErrorSites && g.chance(25) {
		// a value that cannot be closed: the declaration itself raises
		st = append(st, LocAttr(g.fresh("c"), "close", []Expr{I(42), S("x"), Tab(), T()}[g.n(4)]))
		g.feat("tbc-not-closable")
	}
	if g.o.WGoto > 0 && g.chance(3) {
		// a goto that stays inside the scope of the pending variables (the label follows
		// their declarations directly): nothing may be closed by the jump
		g.labelCtr++
		lbl := "L" + itoa(g.labelCtr)
		if g.chance(2) {
			g.feat("tbc-goto-backward-inside-scope")
			fuel := g.fresh("fuel")
			st = append([]Stmt{Loc1(fuel, I(0))}, st...)
			st = append(st,
				&Label{Name: lbl},
				Set(N(fuel), B("+", N(fuel), I(1))),
				Emit(S("retry"), N(fuel)),
				IfS(B("<", N(fuel), g.smallInt(2, 3)), Blk(&Goto{Label: lbl}), nil),
				Emit(S("retried"), I(id)))
		} else {
			g.feat("tbc-goto-forward-inside-scope")
			st = append(st,
				IfS(g.expr(KBool, 2), Blk(&Goto{Label: lbl}), nil),
				Emit(S("not skipped"), I(id)),
				&Label{Name: lbl},
				Emit(S("tail"), I(id)))
		}
	}
	st = append(st, g.stmts(false)...)
	g.depth--
	g.pop()
	blk := &Block{Stmts: st}
	g.maybeExit(blk)
	return []Stmt{&Do{Body: blk}, Emit(S("after"), I(id))}
}

func (g *Gen) sTailRec() []Stmt {
	f := g.fresh("tr")
	depth := []int64{3, 10, 50, 2000}[g.n(4)]
	g.feat("tail-recursion")
	if g.chance(3) {
		// non-tail recursion (bounded depth)
		g.feat("recursion")
		return []Stmt{LocFn(f, Fn([]string{"n"}, IfS(B("<=", N("n"), I(0)), Blk(Ret(I(0))), nil), Ret(B("+", N("n"), C(N(f), B("-", N("n"), I(1))))))),
			Emit(C(N(f), g.smallInt(0, 40)))}
	}
	return []Stmt{LocFn(f, Fn([]string{"n", "acc"}, IfS(B("<=", N("n"), I(0)), Blk(Ret(N("acc"))), nil), Ret(C(N(f), B("-", N("n"), I(1)), B("+", N("acc"), N("n")))))),
		Emit(C(N(f), I(depth), I(0)))}
}
