package lg

import "fmt"

// ErrCase is one cell of the error matrix: where an error is raised and which
// protected call is nearest.
type ErrCase struct {
	Site    string
	Catcher string
}

func (c ErrCase) String() string { return fmt.Sprintf("%s/%s", c.Site, c.Catcher) }

var errSites = []string{
	"arith-nil", "index-nil", "call-nil", "compare", "concat", "len", "bitwise-float", "idiv-zero", "for-step-zero", "for-nonnumber",
	"error-string", "error-string-level2", "error-string-level0", "error-table", "error-nil", "error-int", "error-bool", "error-function",
	"mm-add", "mm-index", "mm-newindex", "mm-call", "mm-lt", "mm-le", "mm-eq", "mm-concat", "mm-len", "mm-unm", "mm-tostring", "mm-close",
	"iterator", "nested-function", "tbc-scope", "string-arith", "tail-called", "vararg-function", "method",
}

var errCatchers = []string{"pcall", "xpcall", "pcall-in-pcall", "xpcall-in-pcall", "pcall-in-xpcall", "resume", "wrap-in-pcall", "resume-in-xpcall", "top-level", "pcall-multiline"}

// ErrMatrix enumerates all cells.
func ErrMatrix() []ErrCase {
	var out []ErrCase
	for _, s := range errSites {
		for _, c := range errCatchers {
			out = append(out, ErrCase{s, c})
		}
	}
	return out
}

// site returns the statements raising the error (inside a function body) and
// preparatory statements placed before the protected call.
func (c ErrCase) site() (prep []Stmt, body []Stmt) {
	obj := func(event string, fn *Func) []Stmt {
		return []Stmt{Loc1("o", CN("setmetatable", Tab(FK("v", I(5))), Tab(FK(event, fn))))}
	}
	raise := Do1(CN("error", N("errobj")))
	switch c.Site {
	case "arith-nil":
		body = []Stmt{Loc1("x", Nl()), Emit(S("before")), Loc1("y", B("+", N("x"), I(1))), Emit(S("unreachable"))}
	case "index-nil":
		body = []Stmt{Loc1("x", Nl()), Emit(S("before")), Loc1("y", Ix(N("x"), "field")), Emit(S("unreachable"))}
	case "call-nil":
		body = []Stmt{Loc1("x", Nl()), Emit(S("before")), Do1(C(N("x"), I(1))), Emit(S("unreachable"))}
	case "compare":
		body = []Stmt{Emit(S("before")), Loc1("y", B("<", Tab(), I(1))), Emit(S("unreachable"))}
	case "concat":
		body = []Stmt{Emit(S("before")), Loc1("y", B("..", S("a"), Tab())), Emit(S("unreachable"))}
	case "len":
		body = []Stmt{Loc1("x", I(7)), Emit(S("before")), Loc1("y", U("#", N("x"))), Emit(S("unreachable"))}
	case "bitwise-float":
		body = []Stmt{Loc1("x", &Float{V: 1.5}), Emit(S("before")), Loc1("y", B("&", N("x"), I(1))), Emit(S("unreachable"))}
	case "idiv-zero":
		body = []Stmt{Loc1("x", I(0)), Emit(S("before")), Loc1("y", B("//", I(1), N("x"))), Emit(S("unreachable"))}
	case "for-step-zero":
		body = []Stmt{Emit(S("before")), &NumFor{Var: &Decl{Name: "i"}, Start: I(1), Limit: I(2), Step: I(0), Body: Blk(Emit(S("unreachable")))}}
	case "for-nonnumber":
		body = []Stmt{Emit(S("before")), &NumFor{Var: &Decl{Name: "i"}, Start: I(1), Limit: Tab(), Body: Blk(Emit(S("unreachable")))}}
	case "error-string":
		body = []Stmt{Emit(S("before")), Do1(CN("error", S("msg"))), Emit(S("unreachable"))}
	case "error-string-level2":
		prep = []Stmt{LocFn("thrower", Fn(nil, Do1(CN("error", S("msg2"), I(2)))))}
		body = []Stmt{Emit(S("before")), Do1(CN("thrower")), Emit(S("unreachable"))}
	case "error-string-level0":
		body = []Stmt{Emit(S("before")), Do1(CN("error", S("bare"), I(0))), Emit(S("unreachable"))}
	case "error-table":
		body = []Stmt{Emit(S("before")), raise, Emit(S("unreachable"))}
	case "error-nil":
		body = []Stmt{Emit(S("before")), Do1(CN("error", Nl())), Emit(S("unreachable"))}
	case "error-int":
		body = []Stmt{Emit(S("before")), Do1(CN("error", I(42))), Emit(S("unreachable"))}
	case "error-bool":
		body = []Stmt{Emit(S("before")), Do1(CN("error", Fl())), Emit(S("unreachable"))}
	case "error-function":
		body = []Stmt{Emit(S("before")), Do1(CN("error", N("g"))), Emit(S("unreachable"))}
	case "mm-add":
		prep = obj("__add", Fn([]string{"a", "b"}, Emit(S("in __add")), raise))
		body = []Stmt{Emit(S("before")), Loc1("y", B("+", N("o"), I(1))), Emit(S("unreachable"))}
	case "mm-index":
		prep = obj("__index", Fn([]string{"t", "k"}, Emit(S("in __index"), N("k")), raise))
		body = []Stmt{Emit(S("before")), Loc1("y", Ix(N("o"), "missing")), Emit(S("unreachable"))}
	case "mm-newindex":
		prep = obj("__newindex", Fn([]string{"t", "k", "v"}, Emit(S("in __newindex"), N("k"), N("v")), raise))
		body = []Stmt{Emit(S("before")), Set(Ix(N("o"), "fresh"), I(3)), Emit(S("unreachable"))}
	case "mm-call":
		prep = obj("__call", Fn([]string{"self", "a"}, Emit(S("in __call"), N("a")), raise))
		body = []Stmt{Emit(S("before")), Do1(C(N("o"), I(9))), Emit(S("unreachable"))}
	case "mm-lt":
		prep = obj("__lt", Fn([]string{"a", "b"}, Emit(S("in __lt")), raise))
		body = []Stmt{Emit(S("before")), Loc1("y", B("<", N("o"), I(1))), Emit(S("unreachable"))}
	case "mm-le":
		prep = obj("__le", Fn([]string{"a", "b"}, Emit(S("in __le")), raise))
		body = []Stmt{Emit(S("before")), Loc1("y", B(">=", I(1), N("o"))), Emit(S("unreachable"))}
	case "mm-eq":
		prep = append(obj("__eq", Fn([]string{"a", "b"}, Emit(S("in __eq")), raise)), Loc1("o2", CN("setmetatable", Tab(), CN("getmetatable", N("o")))))
		body = []Stmt{Emit(S("before")), Loc1("y", B("==", N("o"), N("o2"))), Emit(S("unreachable"))}
	case "mm-concat":
		prep = obj("__concat", Fn([]string{"a", "b"}, Emit(S("in __concat")), raise))
		body = []Stmt{Emit(S("before")), Loc1("y", B("..", S("s"), N("o"))), Emit(S("unreachable"))}
	case "mm-len":
		prep = obj("__len", Fn([]string{"a"}, Emit(S("in __len")), raise))
		body = []Stmt{Emit(S("before")), Loc1("y", U("#", N("o"))), Emit(S("unreachable"))}
	case "mm-unm":
		prep = obj("__unm", Fn([]string{"a"}, Emit(S("in __unm")), raise))
		body = []Stmt{Emit(S("before")), Loc1("y", U("-", N("o"))), Emit(S("unreachable"))}
	case "mm-tostring":
		prep = obj("__tostring", Fn([]string{"a"}, Emit(S("in __tostring")), raise))
		body = []Stmt{Emit(S("before")), Loc1("y", CN("tostring", N("o"))), Emit(S("unreachable"))}
	case "mm-close":
		prep = obj("__close", Fn([]string{"a", "e"}, Emit(S("in __close"), N("e")), raise))
		body = []Stmt{Emit(S("before")), &Do{Body: Blk(LocAttr("c", "close", N("o")), Emit(S("in scope")))}, Emit(S("unreachable"))}
	case "iterator":
		prep = []Stmt{LocFn("iter", Fn([]string{"s", "k"}, IfS(B("==", N("k"), I(2)), Blk(raise), nil), Ret(B("+", N("k"), I(1)))))}
		body = []Stmt{Emit(S("before")), &GenFor{Vars: []*Decl{{Name: "k"}}, Exprs: []Expr{N("iter"), Nl(), I(0)}, Body: Blk(Emit(S("iteration"), N("k")))}, Emit(S("unreachable"))}
	case "nested-function":
		body = []Stmt{Emit(S("before")),
			LocFn("lvl1", Fn([]string{"a"}, LocFn("lvl2", Fn([]string{"b"}, Emit(S("deep"), N("b")), raise)), Ret(B("+", CN("lvl2", B("+", N("a"), I(1))), I(1))))),
			Loc1("y", CN("lvl1", I(1))), Emit(S("unreachable"))}
	case "tbc-scope":
		body = []Stmt{Emit(S("before")), &Do{Body: Blk(LocAttr("c", "close", CN("mkc", I(1))), LocAttr("d", "close", CN("mkc", I(2))), raise)}, Emit(S("unreachable"))}
	case "string-arith":
		body = []Stmt{Loc1("s", S("abc")), Loc1("w", B("+", S("10"), I(1))), Emit(S("before"), N("w")), Loc1("y", B("*", N("s"), I(2))), Emit(S("unreachable"))}
	case "tail-called":
		prep = []Stmt{LocFn("tc", Fn([]string{"n"}, IfS(B("==", N("n"), I(0)), Blk(raise), nil), Ret(CN("tc", B("-", N("n"), I(1))))))}
		body = []Stmt{Emit(S("before")), Ret(CN("tc", I(3)))}
	case "vararg-function":
		prep = []Stmt{LocFn("va", Fn([]string{"..."}, Emit(S("va"), CN("select", S("#"), &Vararg{})), Do1(CN("error", P(&Vararg{})))))}
		body = []Stmt{Emit(S("before")), Do1(CN("va", N("errobj"), I(2), I(3))), Emit(S("unreachable"))}
	case "method":
		prep = []Stmt{Loc1("o", Tab(FK("name", S("obj")))), &FuncStmt{Target: N("o"), Method: "boom", Fn: &Func{HasSelf: true, Params: []*Decl{{Name: "self"}, {Name: "x"}},
			Body: Blk(Emit(S("method"), Ix(N("self"), "name"), N("x")), raise)}}}
		body = []Stmt{Emit(S("before")), Do1(M(N("o"), "boom", I(4))), Emit(S("unreachable"))}
	}
	return
}

// Program builds the cell's program.
func (c ErrCase) Program() *Program {
	prep, body := c.site()
	f := &Func{Body: Blk(body...)}
	// the handler returns several values: only the first one replaces the error value
	handler := Fn([]string{"m"}, Emit(S("handler"), N("m"), B("==", N("m"), N("errobj"))), Ret(Tab(FK("wrapped", N("m"))), S("second result"), I(3)))
	show := func(tag string, call Expr) []Stmt {
		// results of a protected call: status, type of the second value, the value itself and whether it is the error object
		return []Stmt{Loc([]string{"ok", "e", "extra"}, call),
			Emit(S(tag), N("ok"), CN("type", N("e")), N("e"), B("==", N("e"), N("errobj")), N("extra")),
			IfS(B("==", CN("type", N("e")), S("table")), Blk(Emit(S("wrapped is"), CN("rawget", N("e"), S("wrapped")), B("==", CN("rawget", N("e"), S("wrapped")), N("errobj")))), nil)}
	}
	var st []Stmt
	st = append(st, prep...)
	st = append(st, Emit(S("start")))
	switch c.Catcher {
	case "pcall":
		st = append(st, show("pcall", CN("pcall", f))...)
	case "pcall-multiline":
		// the protected function is defined on other lines than the call
		st = append(st, LocFn("body", f))
		st = append(st, show("pcall", CN("pcall", N("body")))...)
	case "xpcall":
		st = append(st, show("xpcall", CN("xpcall", f, handler))...)
	case "pcall-in-pcall":
		inner := Fn(nil, append(show("inner", CN("pcall", f)), Emit(S("after inner")), Ret(S("outer result")))...)
		st = append(st, show("outer", CN("pcall", inner))...)
	case "xpcall-in-pcall":
		inner := Fn(nil, append(show("inner", CN("xpcall", f, handler)), Emit(S("after inner")), Ret(S("outer result")))...)
		st = append(st, show("outer", CN("pcall", inner))...)
	case "pcall-in-xpcall":
		inner := Fn(nil, append(show("inner", CN("pcall", f)), Emit(S("after inner")), Ret(S("outer result")))...)
		st = append(st, show("outer", CN("xpcall", inner, handler))...)
	case "resume":
		st = append(st, Loc1("co", C(Dot("coroutine", "create"), f)))
		st = append(st, show("resume", C(Dot("coroutine", "resume"), N("co")))...)
		st = append(st, Emit(S("status"), C(Dot("coroutine", "status"), N("co"))))
		st = append(st, show("resume dead", C(Dot("coroutine", "resume"), N("co")))...)
	case "wrap-in-pcall":
		st = append(st, Loc1("wf", C(Dot("coroutine", "wrap"), f)))
		st = append(st, show("wrap", CN("pcall", N("wf")))...)
	case "resume-in-xpcall":
		inner := Fn(nil, append(append([]Stmt{Loc1("co", C(Dot("coroutine", "create"), f))}, show("resume", C(Dot("coroutine", "resume"), N("co")))...), Emit(S("after inner")), Ret(S("outer result")))...)
		st = append(st, show("outer", CN("xpcall", inner, handler))...)
	case "top-level":
		st = append(st, LocFn("body", f), Emit(S("calling")), Do1(CN("body")), Emit(S("unreachable at top")))
	}
	st = append(st, Emit(S("end")))
	prelude := []Stmt{
		LocFn("mkc", Fn([]string{"id"},
			Ret(CN("setmetatable", Tab(), Tab(FK("__close", Fn([]string{"o", "e"}, Emit(S("close"), N("id"), N("e"), B("==", N("e"), N("errobj")))))))))),
		Loc1("errobj", Tab(FK("tag", S("errobj")))),
		LocFn("g", Fn([]string{"x"}, Ret(N("x")))),
	}
	g := &Gen{Features: map[string]int{}}
	all := append(prelude, st...)
	if c.Catcher != "top-level" {
		all = append(all, g.healthSuite()...)
	}
	ch := NewChunk(Blk(all...))
	Resolve(ch)
	return &Program{Chunk: ch, Features: map[string]int{"err-matrix": 1}}
}
