package lg

// Short constructors used by the generator's templates.

func N(name string) *Name { return &Name{Name: name} }
func I(v int64) *Int      { return &Int{V: v} }
func S(v string) *Str     { return &Str{V: v} }
func Nl() *Nil            { return &Nil{} }
func T() *True            { return &True{} }
func Fl() *False          { return &False{} }

func B(op string, l, r Expr) *Bin { return &Bin{Op: op, L: l, R: r} }
func U(op string, x Expr) *Un     { return &Un{Op: op, X: x} }
func P(x Expr) *Paren             { return &Paren{X: x} }

// Ix indexes obj with a key; a Go string key becomes a Str.
func Ix(obj Expr, key interface{}) *Index {
	switch k := key.(type) {
	case string:
		return &Index{Obj: obj, Key: S(k)}
	case int:
		return &Index{Obj: obj, Key: I(int64(k))}
	case Expr:
		return &Index{Obj: obj, Key: k}
	}
	panic("Ix: bad key")
}

// Dot builds a.b.c from "a.b.c".
func Dot(path ...string) Expr {
	var e Expr = N(path[0])
	for _, p := range path[1:] {
		e = Ix(e, p)
	}
	return e
}

func C(fn Expr, args ...Expr) *Call                   { return &Call{Fn: fn, Args: args} }
func CN(fn string, args ...Expr) *Call                { return &Call{Fn: N(fn), Args: args} }
func M(obj Expr, name string, args ...Expr) *MethCall { return &MethCall{Obj: obj, Name: name, Args: args} }

func Blk(stmts ...Stmt) *Block { return &Block{Stmts: stmts} }

// Fn builds a function literal with the named parameters ("..." = vararg).
func Fn(params []string, stmts ...Stmt) *Func {
	f := &Func{Body: Blk(stmts...)}
	for _, p := range params {
		if p == "..." {
			f.IsVararg = true
		} else {
			f.Params = append(f.Params, &Decl{Name: p})
		}
	}
	return f
}

func Loc(names []string, exprs ...Expr) *Local {
	l := &Local{Exprs: exprs}
	for _, n := range names {
		l.Decls = append(l.Decls, &Decl{Name: n})
	}
	return l
}

func Loc1(name string, e Expr) *Local { return Loc([]string{name}, e) }

func LocAttr(name, attrib string, e Expr) *Local {
	return &Local{Decls: []*Decl{{Name: name, Attrib: attrib}}, Exprs: []Expr{e}}
}

func LocFn(name string, f *Func) *LocalFunc { return &LocalFunc{Decl: &Decl{Name: name}, Fn: f} }

func Set(target Expr, e Expr) *Assign { return &Assign{Targets: []Expr{target}, Exprs: []Expr{e}} }

func Ret(exprs ...Expr) *Return { return &Return{Exprs: exprs} }

func Do1(c Expr) *CallStmt { return &CallStmt{Call: c} }

func Emit(args ...Expr) Stmt { return emitCall(args...) }

func IfS(cond Expr, then *Block, els *Block) *If {
	return &If{Conds: []Expr{cond}, Blocks: []*Block{then}, Else: els}
}

func Tab(fields ...Field) *Table { return &Table{Fields: fields} }
func FV(v Expr) Field            { return Field{Val: v} }
func FK(k string, v Expr) Field  { return Field{Key: S(k), Val: v} }
func FE(k Expr, v Expr) Field    { return Field{Key: k, Val: v} }

func isLuaSpace(c byte) bool {
	return c == ' ' || c == '\t' || c == '\n' || c == '\r' || c == '\v' || c == '\f'
}
