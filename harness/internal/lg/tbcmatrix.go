package lg

import "fmt"

// TBCCase is one cell of the to-be-closed matrix: a wrapper construct, an exit
// kind and a layout of pending to-be-closed variables.
type TBCCase struct {
	Wrapper string
	Exit    string
	NTBC    int  // 1..3 variables pending at the exit
	Raising bool // the second variable's handler raises
	Nested  bool // the exit happens from an inner block that has its own variable
	Deep    bool // the exit statement sits inside `if true then … end`
}

func (c TBCCase) String() string {
	return fmt.Sprintf("%s/%s/n%d/raise=%v/nested=%v/deep=%v", c.Wrapper, c.Exit, c.NTBC, c.Raising, c.Nested, c.Deep)
}

var tbcWrappers = []string{"do", "while", "numfor", "genfor", "genfor-closing", "repeat", "function", "pcall", "coroutine", "coroutine-wrap"}
var tbcExits = []string{"fall", "break", "goto-out", "goto-continue", "return", "return-call", "error-string", "error-table", "error-level2",
	"yield-close", "yield-resume", "yield-in-pcall-close", "notclosable",
	// jumps that stay inside the scope of the pending variables (label in the same scope,
	// directly after the declarations / after the jump): nothing of that scope is closed
	"goto-retry-inside", "goto-skip-inside"}

func tbcValid(c TBCCase) bool {
	loop := c.Wrapper == "while" || c.Wrapper == "numfor" || c.Wrapper == "genfor" || c.Wrapper == "genfor-closing" || c.Wrapper == "repeat"
	co := c.Wrapper == "coroutine" || c.Wrapper == "coroutine-wrap"
	switch c.Exit {
	case "break", "goto-continue":
		// a label before `until` is excluded (the condition could see the locals)
		return loop && !(c.Exit == "goto-continue" && c.Wrapper == "repeat")
	case "goto-out":
		return c.Wrapper == "do" || loop
	case "yield-close", "yield-resume", "yield-in-pcall-close":
		return co
	case "error-level2":
		return c.Wrapper == "function"
	}
	return true
}

// TBCMatrix enumerates every valid cell.
func TBCMatrix() []TBCCase {
	var out []TBCCase
	for _, w := range tbcWrappers {
		for _, e := range tbcExits {
			for n := 1; n <= 3; n++ {
				for _, raising := range []bool{false, true} {
					for _, nested := range []bool{false, true} {
						for _, deep := range []bool{false, true} {
							c := TBCCase{w, e, n, raising, nested, deep}
							if raising && n < 2 {
								continue
							}
							if tbcValid(c) {
								out = append(out, c)
							}
						}
					}
				}
			}
		}
	}
	return out
}

// Program builds the program of a cell. Everything observable goes through
// emit: the handlers emit ("close", id, err), markers surround every scope.
func (c TBCCase) Program() *Program {
	mk := func(id int64, raising bool) Expr {
		if raising {
			return CN("mkce", I(id))
		}
		return CN("mkc", I(id))
	}
	var body []Stmt
	body = append(body, LocAttr("c1", "close", mk(1, false)))
	if c.NTBC >= 2 {
		body = append(body, LocAttr("c2", "close", mk(2, c.Raising)))
	}
	if c.NTBC >= 3 {
		// a nil and a false value are legal and are skipped
		body = append(body, LocAttr("c0", "close", Nl()), LocAttr("c3", "close", mk(3, false)))
	}
	if c.Exit == "goto-retry-inside" {
		body = append([]Stmt{Loc1("fuel", I(0))}, body...)
		body = append(body, &Label{Name: "again"})
	}
	body = append(body, Emit(S("in")))
	var exit []Stmt
	switch c.Exit {
	case "fall":
	case "goto-retry-inside":
		exit = []Stmt{Set(N("fuel"), B("+", N("fuel"), I(1))), IfS(B("<", N("fuel"), I(3)), Blk(&Goto{Label: "again"}), nil)}
	case "goto-skip-inside":
		exit = []Stmt{IfS(B("==", N("errobj"), N("errobj")), Blk(&Goto{Label: "tail"}), nil), Emit(S("not skipped"))}
	case "break":
		exit = []Stmt{&Break{}}
	case "goto-out":
		exit = []Stmt{&Goto{Label: "out"}}
	case "goto-continue":
		exit = []Stmt{&Goto{Label: "cont"}}
	case "return":
		exit = []Stmt{Ret(I(10), S("r"))}
	case "return-call":
		exit = []Stmt{Ret(CN("g", I(5)))}
	case "error-string":
		exit = []Stmt{Do1(CN("error", S("E")))}
	case "error-table":
		exit = []Stmt{Do1(CN("error", N("errobj")))}
	case "error-level2":
		exit = []Stmt{Do1(CN("error", S("E2"), I(2)))}
	case "yield-close", "yield-resume":
		exit = []Stmt{Emit(S("back"), C(Dot("coroutine", "yield"), I(77)))}
	case "yield-in-pcall-close":
		exit = []Stmt{Emit(S("inner pcall"), CN("pcall", Fn(nil,
			LocAttr("cp", "close", mk(8, false)),
			Emit(S("back"), C(Dot("coroutine", "yield"), I(77))))))}
	case "notclosable":
		exit = []Stmt{LocAttr("cx", "close", I(42)), Emit(S("unreachable"))}
	}
	if c.Deep && len(exit) > 0 {
		exit = []Stmt{IfS(T(), Blk(exit...), nil)}
	}
	if c.Nested {
		inner := append([]Stmt{LocAttr("c7", "close", mk(7, false)), Emit(S("inner"))}, exit...)
		body = append(body, &Do{Body: Blk(inner...)})
		switch c.Exit {
		case "fall", "yield-resume", "yield-close", "yield-in-pcall-close", "goto-retry-inside":
			body = append(body, Emit(S("after inner")))
		}
	} else {
		body = append(body, exit...)
	}
	if c.Exit == "goto-continue" {
		body = append(body, &Label{Name: "cont"})
	}
	if c.Exit == "goto-skip-inside" {
		body = append(body, &Label{Name: "tail"}, Emit(S("tail")))
	}
	isTerminal := func() bool {
		if len(body) == 0 {
			return false
		}
		switch body[len(body)-1].(type) {
		case *Return, *Break, *Goto:
			return true
		}
		return false
	}
	if !isTerminal() && c.Exit != "goto-continue" {
		body = append(body, Emit(S("body end")))
	}

	var st []Stmt
	st = append(st, Emit(S("start")))
	blk := Blk(body...)
	switch c.Wrapper {
	case "do":
		st = append(st, &Do{Body: blk})
	case "while":
		blk.Stmts = append([]Stmt{Set(N("n"), B("+", N("n"), I(1)))}, blk.Stmts...)
		st = append(st, Loc1("n", I(0)), &While{Cond: B("<", N("n"), I(2)), Body: blk})
	case "numfor":
		st = append(st, &NumFor{Var: &Decl{Name: "i"}, Start: I(1), Limit: I(2), Body: blk})
	case "genfor":
		st = append(st, &GenFor{Vars: []*Decl{{Name: "i"}, {Name: "v"}}, Exprs: []Expr{CN("ipairs", Tab(FV(I(7)), FV(I(8))))}, Body: blk})
	case "genfor-closing":
		st = append(st, LocFn("iter", Fn([]string{"s", "k"}, IfS(B("<", N("k"), N("s")), Blk(Ret(B("+", N("k"), I(1)))), nil))),
			&GenFor{Vars: []*Decl{{Name: "i"}}, Exprs: []Expr{N("iter"), I(2), I(0), mk(9, false)}, Body: blk})
	case "repeat":
		blk.Stmts = append([]Stmt{Set(N("n"), B("+", N("n"), I(1)))}, blk.Stmts...)
		st = append(st, Loc1("n", I(0)), &Repeat{Body: blk, Cond: B(">=", N("n"), I(2))})
	case "function":
		st = append(st, LocFn("f", &Func{Params: []*Decl{{Name: "x"}}, Body: blk}), Emit(S("f returned"), CN("f", I(1))))
	case "pcall":
		st = append(st, Emit(S("pcall returned"), CN("pcall", &Func{Body: blk})))
	case "coroutine":
		st = append(st, Loc1("co", C(Dot("coroutine", "create"), &Func{Body: blk})),
			Emit(S("resume 1"), C(Dot("coroutine", "resume"), N("co"))),
			Emit(S("status"), C(Dot("coroutine", "status"), N("co"))))
		switch c.Exit {
		case "yield-close", "yield-in-pcall-close":
			st = append(st, Emit(S("close"), C(Dot("coroutine", "close"), N("co"))))
		case "yield-resume":
			st = append(st, Emit(S("resume 2"), C(Dot("coroutine", "resume"), N("co"), S("again"))))
		}
		st = append(st, Emit(S("status"), C(Dot("coroutine", "status"), N("co"))))
		if !(c.Raising && (c.Exit == "yield-close" || c.Exit == "yield-in-pcall-close")) {
			// (closing once more a coroutine whose close already reported an error is
			// left open by the manual)
			st = append(st, Emit(S("close dead"), C(Dot("coroutine", "close"), N("co"))))
		}
	case "coroutine-wrap":
		st = append(st, Loc1("wf", C(Dot("coroutine", "wrap"), &Func{Body: blk})),
			Emit(S("call 1"), CN("pcall", N("wf"))))
		if c.Exit == "yield-resume" || c.Exit == "yield-close" || c.Exit == "yield-in-pcall-close" {
			st = append(st, Emit(S("call 2"), CN("pcall", N("wf"), S("again"))))
		}
	}
	if c.Exit == "goto-out" {
		st = append(st, &Label{Name: "out"})
	}
	st = append(st, Emit(S("end")))

	// the whole case runs inside a function called through pcall, so that errors
	// and returns are observed and the order of events is complete
	prelude := []Stmt{
		LocFn("mkc", Fn([]string{"id"},
			Ret(CN("setmetatable", Tab(), Tab(FK("__close", Fn([]string{"o", "e"}, Emit(S("close"), N("id"), N("e"))))))))),
		LocFn("mkce", Fn([]string{"id"},
			Ret(CN("setmetatable", Tab(), Tab(FK("__close", Fn([]string{"o", "e"},
				Emit(S("close-raising"), N("id"), N("e")),
				Do1(CN("error", B("..", S("ce"), N("id")), I(0)))))))))),
		Loc1("errobj", Tab(FK("tag", S("errobj")))),
		LocFn("g", Fn([]string{"x"}, Emit(S("g called"), N("x")), Ret(B("*", N("x"), I(2)), S("from g")))),
		LocFn("main", &Func{Body: Blk(st...)}),
		Emit(S("main returned"), CN("pcall", N("main"))),
		Emit(S("errobj is"), N("errobj")),
	}
	ch := NewChunk(Blk(prelude...))
	Resolve(ch)
	return &Program{Chunk: ch, Features: map[string]int{"tbc-matrix": 1}}
}
