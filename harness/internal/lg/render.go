package lg

import (
	"fmt"
	"math"
	"math/rand"
	"strconv"
	"strings"
)

// Style controls the spelling of a rendering. The zero Style is the plain
// canonical rendering.
type Style struct {
	Redundant  bool // add redundant parentheses around single-valued subexpressions
	Noise      bool // random extra blanks, tabs, comments and blank/comment lines
	AltLiteral bool // alternative literal spellings (hex integers, escapes, long brackets, hex floats)
	Sugar      bool // a.b / f{…} / f"…" sugar where allowed (otherwise a["b"], f({…}))
	Semis      bool // `;` separators
	Rnd        *rand.Rand
}

type renderer struct {
	sb    strings.Builder
	line  int
	st    Style
	lines Lines
	ind   int
	last  byte
	// skipWrap suppresses redundant parentheses around the next expression
	// rendered (assignment targets and call statements must stay bare).
	skipWrap bool
}

// Render renders the chunk and returns the text and the lines of its nodes.
func Render(c *Chunk, st Style) (string, Lines) {
	if st.Rnd == nil {
		st.Rnd = rand.New(rand.NewSource(1))
	}
	r := &renderer{line: 1, st: st, lines: Lines{}}
	if st.Noise && st.Rnd.Intn(2) == 0 {
		r.w("-- generated program\n")
	}
	r.block(c.Body)
	return r.sb.String(), r.lines
}

func (r *renderer) w(s string) {
	if s == "" {
		return
	}
	r.sb.WriteString(s)
	r.line += strings.Count(s, "\n")
	r.last = s[len(s)-1]
}

func (r *renderer) chance(n int) bool { return r.st.Rnd.Intn(n) == 0 }

// sp writes a token separator: one blank, or noise.
func (r *renderer) sp() {
	if !r.st.Noise {
		r.w(" ")
		return
	}
	switch r.st.Rnd.Intn(8) {
	case 0:
		r.w("  ")
	case 1:
		r.w("\t")
	case 2:
		r.w(" --[[" + r.commentText() + "]] ")
	case 3:
		r.w(" --[==[ ]] " + r.commentText() + "]==] ")
	default:
		r.w(" ")
	}
}

// osp writes an optional separator (may be empty).
func (r *renderer) osp() {
	if !r.st.Noise {
		return
	}
	switch r.st.Rnd.Intn(6) {
	case 0:
		r.w(" ")
	case 1:
		r.w("--[[" + r.commentText() + "]]")
	}
}

func (r *renderer) commentText() string {
	words := []string{"x", "end", "do", "'", "\"", "[[", "--", "1 + ", "return", "\\", "%", "if then", "[=["}
	n := r.st.Rnd.Intn(3)
	var p []string
	for i := 0; i <= n; i++ {
		p = append(p, words[r.st.Rnd.Intn(len(words))])
	}
	return strings.Join(p, " ")
}

func (r *renderer) nl() {
	if r.st.Noise && r.chance(6) {
		r.w(" -- " + strings.ReplaceAll(r.commentText(), "\n", " "))
	}
	r.w("\n")
	if r.st.Noise {
		switch r.st.Rnd.Intn(10) {
		case 0:
			r.w("\n")
		case 1:
			r.w(strings.Repeat("  ", r.ind) + "-- " + r.commentText() + "\n")
		case 2:
			r.w("--[[ multi\nline " + r.commentText() + "\n]]\n")
		}
	}
}

func (r *renderer) indent() { r.w(strings.Repeat("  ", r.ind)) }

func (r *renderer) block(b *Block) {
	for _, s := range b.Stmts {
		r.indent()
		lo := r.line
		r.stmt(s)
		if _, isRet := s.(*Return); r.st.Semis && (isRet && r.chance(2) || !isRet && r.chance(3)) {
			r.osp()
			r.w(";")
		}
		sp := Span{lo, r.line}
		switch s.(type) {
		case *Do, *While, *Repeat, *If, *NumFor, *GenFor:
			// compound statements: the header's line (set by stmt)
		default:
			r.lines[s] = sp
		}
		r.nl()
	}
}

func (r *renderer) innerBlock(b *Block) {
	r.nl()
	r.ind++
	r.block(b)
	r.ind--
	r.indent()
}

func (r *renderer) exprList(es []Expr) {
	for i, e := range es {
		if i > 0 {
			r.osp()
			r.w(",")
			r.sp()
		}
		r.expr(e, 0)
	}
}

func (r *renderer) names(ds []*Decl, attribs bool) {
	for i, d := range ds {
		if i > 0 {
			r.w(",")
			r.sp()
		}
		r.w(d.Name)
		if attribs && d.Attrib != "" {
			r.osp()
			r.w("<")
			r.osp()
			r.w(d.Attrib)
			r.osp()
			r.w(">")
		}
	}
}

func (r *renderer) stmt(s Stmt) {
	switch n := s.(type) {
	case *Local:
		r.w("local")
		r.sp()
		r.names(n.Decls, true)
		if len(n.Exprs) > 0 {
			r.sp()
			r.w("=")
			r.sp()
			r.exprList(n.Exprs)
		}
	case *Assign:
		r.guarded(func() {
			for i, t := range n.Targets {
				if i > 0 {
					r.w(",")
					r.sp()
				}
				r.skipWrap = true
				r.expr(t, 0)
			}
		})
		r.sp()
		r.w("=")
		r.sp()
		r.exprList(n.Exprs)
	case *CallStmt:
		r.guarded(func() {
			r.skipWrap = true
			r.expr(n.Call, 0)
		})
	case *Do:
		r.lines[s] = Span{r.line, r.line}
		r.w("do")
		r.innerBlock(n.Body)
		r.w("end")
	case *While:
		r.lines[s] = Span{r.line, r.line}
		r.lines[n.Cond] = Span{r.line, r.line}
		r.w("while")
		r.sp()
		lo := r.line
		r.expr(n.Cond, 0)
		r.lines[n.Cond] = Span{lo, r.line}
		r.sp()
		r.w("do")
		r.innerBlock(n.Body)
		r.w("end")
	case *Repeat:
		r.lines[s] = Span{r.line, r.line}
		r.w("repeat")
		r.innerBlock(n.Body)
		r.w("until")
		r.sp()
		lo := r.line
		r.expr(n.Cond, 0)
		r.lines[n.Cond] = Span{lo, r.line}
	case *If:
		r.lines[s] = Span{r.line, r.line}
		for i, c := range n.Conds {
			if i == 0 {
				r.w("if")
			} else {
				r.w("elseif")
			}
			r.sp()
			lo := r.line
			r.expr(c, 0)
			r.lines[c] = Span{lo, r.line}
			r.sp()
			r.w("then")
			r.innerBlock(n.Blocks[i])
		}
		if n.Else != nil {
			r.w("else")
			r.innerBlock(n.Else)
		}
		r.w("end")
	case *NumFor:
		lo := r.line
		r.w("for")
		r.sp()
		r.w(n.Var.Name)
		r.sp()
		r.w("=")
		r.sp()
		r.expr(n.Start, 0)
		r.w(",")
		r.sp()
		r.expr(n.Limit, 0)
		if n.Step != nil {
			r.w(",")
			r.sp()
			r.expr(n.Step, 0)
		}
		r.sp()
		r.w("do")
		r.lines[s] = Span{lo, r.line}
		r.innerBlock(n.Body)
		r.w("end")
	case *GenFor:
		lo := r.line
		r.w("for")
		r.sp()
		r.names(n.Vars, false)
		r.sp()
		r.w("in")
		r.sp()
		r.exprList(n.Exprs)
		r.sp()
		r.w("do")
		r.lines[s] = Span{lo, r.line}
		r.innerBlock(n.Body)
		r.w("end")
	case *FuncStmt:
		r.w("function")
		r.sp()
		r.funcName(n.Target)
		if n.Method != "" {
			r.w(":")
			r.w(n.Method)
		}
		r.funcBody(n.Fn)
	case *LocalFunc:
		r.w("local")
		r.sp()
		r.w("function")
		r.sp()
		r.w(n.Decl.Name)
		r.funcBody(n.Fn)
	case *Return:
		r.w("return")
		if len(n.Exprs) > 0 {
			r.sp()
			r.exprList(n.Exprs)
		}
	case *Break:
		r.w("break")
	case *Goto:
		r.w("goto")
		r.sp()
		r.w(n.Label)
	case *Label:
		r.w("::")
		r.osp()
		r.w(n.Name)
		r.osp()
		r.w("::")
	default:
		panic(fmt.Sprintf("render: unknown statement %T", s))
	}
}

// guarded renders through f and puts a `;` in front when the text starts
// with `(` (which Lua would read as a call of the previous statement's value).
func (r *renderer) guarded(f func()) {
	saved := r.sb
	r.sb = strings.Builder{}
	f()
	text := r.sb.String()
	r.sb = saved
	if strings.HasPrefix(text, "(") {
		r.sb.WriteString(";")
	}
	r.sb.WriteString(text)
}

func (r *renderer) funcName(e Expr) {
	switch n := e.(type) {
	case *Name:
		r.w(n.Name)
	case *Index:
		r.funcName(n.Obj)
		r.w(".")
		r.w(n.Key.(*Str).V)
	}
}

func (r *renderer) funcBody(f *Func) {
	r.osp()
	r.w("(")
	ps := f.Params
	if f.HasSelf {
		ps = ps[1:]
	}
	for i, p := range ps {
		if i > 0 {
			r.w(",")
			r.sp()
		}
		r.w(p.Name)
	}
	if f.IsVararg {
		if len(ps) > 0 {
			r.w(",")
			r.sp()
		}
		r.w("...")
	}
	r.w(")")
	if len(f.Body.Stmts) == 0 {
		r.sp()
		r.w("end")
		return
	}
	r.innerBlock(f.Body)
	r.w("end")
}

func startsWithParen(e Expr) bool {
	switch n := e.(type) {
	case *Paren:
		return true
	case *Call:
		if !isPrefixExp(n.Fn) {
			return true
		}
		return startsWithParen(n.Fn)
	case *MethCall:
		if !isPrefixExp(n.Obj) {
			return true
		}
		return startsWithParen(n.Obj)
	case *Index:
		if !isPrefixExp(n.Obj) {
			return true
		}
		return startsWithParen(n.Obj)
	}
	return false
}

// isPrefixExp: can e stand before `.name`, `[k]`, `(args)`, `:m()` unparenthesised.
func isPrefixExp(e Expr) bool {
	switch e.(type) {
	case *Name, *Index, *Call, *MethCall, *Paren:
		return true
	}
	return false
}

// Operator precedences (Lua 5.4 manual §3.4.8), low to high.
var binPrec = map[string]int{
	"or": 1, "and": 2,
	"<": 3, ">": 3, "<=": 3, ">=": 3, "~=": 3, "==": 3,
	"|": 4, "~": 5, "&": 6, "<<": 7, ">>": 7,
	"..": 8, "+": 9, "-": 9, "*": 10, "/": 10, "//": 10, "%": 10,
	"^": 12,
}

const unPrec = 11

func rightAssoc(op string) bool { return op == ".." || op == "^" }

func isIdent(s string) bool {
	if s == "" {
		return false
	}
	for i := 0; i < len(s); i++ {
		c := s[i]
		if !(c == '_' || c >= 'a' && c <= 'z' || c >= 'A' && c <= 'Z' || i > 0 && c >= '0' && c <= '9') {
			return false
		}
	}
	switch s {
	case "and", "break", "do", "else", "elseif", "end", "false", "for", "function", "goto", "if", "in", "local", "nil", "not", "or",
		"repeat", "return", "then", "true", "until", "while":
		return false
	}
	return true
}

// expr renders e in a context that requires precedence > min to go
// unparenthesised (min = 0: any expression).
func (r *renderer) expr(e Expr, min int) {
	skip := r.skipWrap
	r.skipWrap = false
	if !skip && r.st.Redundant && !IsMulti(e) && r.chance(5) {
		if _, isParen := e.(*Paren); !isParen {
			r.w("(")
			r.osp()
			r.expr(e, 0)
			r.osp()
			r.w(")")
			return
		}
	}
	switch n := e.(type) {
	case *Nil:
		r.w("nil")
	case *True:
		r.w("true")
	case *False:
		r.w("false")
	case *Vararg:
		r.w("...")
	case *Int:
		r.intLit(n.V, min)
	case *Float:
		r.floatLit(n.V, min)
	case *Str:
		r.strLit(n.V)
	case *Name:
		r.w(n.Name)
	case *Paren:
		r.w("(")
		r.osp()
		r.expr(n.X, 0)
		r.osp()
		r.w(")")
	case *Index:
		r.prefix(n.Obj)
		if k, ok := n.Key.(*Str); ok && isIdent(k.V) && (r.st.Sugar || r.chance(2)) {
			r.osp()
			r.w(".")
			r.osp()
			r.w(k.V)
			return
		}
		r.w("[")
		r.w(" ")
		r.expr(n.Key, 0)
		r.w(" ")
		r.w("]")
	case *Call:
		r.prefix(n.Fn)
		r.args(n.Args)
	case *MethCall:
		r.prefix(n.Obj)
		r.osp()
		r.w(":")
		r.osp()
		r.w(n.Name)
		r.args(n.Args)
	case *Func:
		r.w("function")
		r.funcBody(n)
	case *Table:
		r.table(n)
	case *Un:
		if unPrec <= min {
			r.w("(")
			defer r.w(")")
		}
		r.w(n.Op)
		if n.Op == "not" {
			r.sp()
		} else {
			// `- -x` and `-(-1)`: never let two minus signs touch
			r.w(" ")
		}
		r.expr(n.X, unPrec-1)
	case *Bin:
		p := binPrec[n.Op]
		if p == 0 {
			panic("render: unknown operator " + n.Op)
		}
		if p <= min {
			r.w("(")
			defer r.w(")")
		}
		lmin, rmin := p-1, p
		if rightAssoc(n.Op) {
			lmin, rmin = p, p-1
		}
		if n.Op == "^" {
			// the right operand of ^ may be a unary expression without parentheses: 2^-3
			rmin = unPrec - 1
		}
		r.expr(n.L, lmin)
		r.sp()
		r.w(n.Op)
		r.sp()
		r.expr(n.R, rmin)
	default:
		panic(fmt.Sprintf("render: unknown expression %T", e))
	}
}

func (r *renderer) prefix(e Expr) {
	if isPrefixExp(e) {
		r.expr(e, 0)
		return
	}
	if _, ok := e.(*Str); ok && false {
		return
	}
	r.w("(")
	r.expr(e, 0)
	r.w(")")
}

func (r *renderer) args(as []Expr) {
	if r.st.Sugar && len(as) == 1 {
		switch a := as[0].(type) {
		case *Table:
			r.osp()
			r.table(a)
			return
		case *Str:
			r.w(" ")
			r.strLit(a.V)
			return
		}
	}
	r.osp()
	r.w("(")
	r.exprList(as)
	r.w(")")
}

func (r *renderer) table(t *Table) {
	r.w("{")
	for i, f := range t.Fields {
		if i > 0 {
			if r.st.Noise && r.chance(3) {
				r.w(";")
			} else {
				r.w(",")
			}
			r.sp()
		}
		if f.Key != nil {
			if k, ok := f.Key.(*Str); ok && isIdent(k.V) && (r.st.Sugar || r.chance(2)) {
				r.w(k.V)
			} else {
				r.w("[")
				r.w(" ")
				r.expr(f.Key, 0)
				r.w(" ")
				r.w("]")
			}
			r.sp()
			r.w("=")
			r.sp()
		}
		r.expr(f.Val, 0)
	}
	if len(t.Fields) > 0 && r.st.Noise && r.chance(4) {
		last := t.Fields[len(t.Fields)-1]
		if !(last.Key == nil && IsMulti(last.Val)) || true {
			r.w(",")
		}
	}
	r.w("}")
}

func (r *renderer) intLit(v int64, min int) {
	if r.st.AltLiteral && r.chance(2) {
		// hexadecimal integers wrap around modulo 2^64
		if r.chance(2) {
			r.w("0x" + strconv.FormatUint(uint64(v), 16))
		} else {
			r.w("0X" + strings.ToUpper(strconv.FormatUint(uint64(v), 16)))
		}
		return
	}
	if v == math.MinInt64 {
		r.w("0x8000000000000000")
		return
	}
	if v < 0 {
		// a negative numeral is the unary minus applied to a numeral
		if unPrec <= min || true {
			r.w("(-" + strconv.FormatInt(-v, 10) + ")")
			return
		}
	}
	r.w(strconv.FormatInt(v, 10))
}

func (r *renderer) floatLit(v float64, min int) {
	if math.IsInf(v, 0) || v != v {
		panic("render: non-finite float literal")
	}
	neg := v < 0 || (v == 0 && math.Signbit(v))
	a := math.Abs(v)
	var s string
	if r.st.AltLiteral && r.chance(2) {
		s = strconv.FormatFloat(a, 'x', -1, 64) // 0x1.8p+00
	} else {
		s = strconv.FormatFloat(a, 'g', -1, 64)
		if !strings.ContainsAny(s, ".eEn") {
			s += ".0"
		}
		if r.st.AltLiteral && r.chance(3) && !strings.ContainsAny(s, "eE") {
			s += "e0"
		}
	}
	if neg {
		r.w("(-" + s + ")")
		return
	}
	r.w(s)
}

func (r *renderer) strLit(s string) {
	if r.st.AltLiteral {
		switch r.st.Rnd.Intn(4) {
		case 0:
			if !strings.ContainsAny(s, "\r\n]") {
				eq := strings.Repeat("=", r.st.Rnd.Intn(3))
				r.w("[" + eq + "[" + s + "]" + eq + "]")
				return
			}
		case 1:
			r.w(quoteLua(s, '\'', r.st.Rnd, true))
			return
		case 2:
			r.w(quoteLua(s, '"', r.st.Rnd, true))
			return
		}
	}
	r.w(quoteLua(s, '"', nil, false))
}

// quoteLua renders s as a short literal string; with alt, characters are
// randomly spelled as decimal, hexadecimal or unicode escapes.
func quoteLua(s string, q byte, rnd *rand.Rand, alt bool) string {
	var b strings.Builder
	b.WriteByte(q)
	for i := 0; i < len(s); i++ {
		c := s[i]
		nextDigit := i+1 < len(s) && s[i+1] >= '0' && s[i+1] <= '9'
		if alt && rnd.Intn(6) == 0 {
			switch rnd.Intn(3) {
			case 0:
				if nextDigit {
					fmt.Fprintf(&b, "\\%03d", c)
				} else {
					fmt.Fprintf(&b, "\\%d", c)
				}
			case 1:
				fmt.Fprintf(&b, "\\x%02x", c)
			case 2:
				if c < 0x80 {
					fmt.Fprintf(&b, "\\u{%X}", c)
				} else {
					fmt.Fprintf(&b, "\\x%02X", c)
				}
			}
			continue
		}
		switch {
		case c == q || c == '\\':
			b.WriteByte('\\')
			b.WriteByte(c)
		case c == '\n':
			b.WriteString("\\n")
		case c == '\r':
			b.WriteString("\\r")
		case c == '\t':
			b.WriteString("\\t")
		case c == 0:
			if nextDigit {
				b.WriteString("\\000")
			} else {
				b.WriteString("\\0")
			}
		case c < 0x20 || c >= 0x7f:
			if nextDigit {
				fmt.Fprintf(&b, "\\%03d", c)
			} else {
				fmt.Fprintf(&b, "\\%d", c)
			}
		default:
			b.WriteByte(c)
			// \z skips the following white space, so it must not be followed by
			// white space that belongs to the string
			if alt && rnd.Intn(12) == 0 && !(i+1 < len(s) && isLuaSpace(s[i+1])) {
				b.WriteString("\\z  ")
			}
		}
	}
	b.WriteByte(q)
	return b.String()
}
