// Package strmodel is an executable reading of §6.4 (the non-pattern string
// functions) and §6.6 (table functions) of the Lua 5.4 reference manual on
// byte strings and on integer-keyed stores.  It shares no code with golua.
//
// Every function answers with a Status:
//
//	Val  - the manual fixes the result (and, for table functions, the final
//	       contents of the store, which is updated in place);
//	Err  - the manual (or the argument checks of the reference implementation
//	       that the manual's wording implies) makes the call an error;
//	Huge - the result is defined but needs an amount of memory / work that no
//	       bounded context can supply: an error or a quota kill is accepted,
//	       a *wrong* result is not;
//	Skip - the manual leaves the case open (non-specified number formats,
//	       explicit nil for an optional argument, #list+1 overflowing, ...):
//	       no verdict except "does not crash".
//
// Position arithmetic is done on math/big integers or on int64 with explicit
// range checks so that minint / maxint arguments cannot wrap inside the model.
package strmodel

import (
	"math"
	"math/big"
	"sort"
	"strconv"
	"strings"
)

type Status int

const (
	Val Status = iota
	Err
	Huge
	Skip
)

func (s Status) String() string { return [...]string{"val", "err", "huge", "skip"}[s] }

type Kind int

const (
	Nil Kind = iota
	Bool
	Int
	Float
	Str
	Ref // an opaque reference value (table / function) identified by Id
)

// V is a Lua value as far as these functions can tell values apart.
type V struct {
	K  Kind
	B  bool
	I  int64
	F  float64
	S  string
	Id int
}

var NilV = V{}

func I(i int64) V   { return V{K: Int, I: i} }
func F(f float64) V { return V{K: Float, F: f} }
func S(s string) V  { return V{K: Str, S: s} }
func B(b bool) V    { return V{K: Bool, B: b} }
func R(id int) V    { return V{K: Ref, Id: id} }

// Enc is the canonical encoding, identical to gl.Namer.Enc for scalars.
func (v V) Enc() string {
	switch v.K {
	case Nil:
		return "n"
	case Bool:
		if v.B {
			return "b:true"
		}
		return "b:false"
	case Int:
		return "i:" + strconv.FormatInt(v.I, 10)
	case Float:
		if v.F != v.F {
			return "f:nan"
		}
		return "f:" + strconv.FormatUint(math.Float64bits(v.F), 16)
	case Str:
		return "s:" + strconv.Quote(v.S)
	}
	// references are named like gl.Namer names tables registered in the
	// order of their ids at the start of a session
	return "t#" + strconv.Itoa(v.Id)
}

func EncList(vs []V) string {
	p := make([]string, len(vs))
	for i, v := range vs {
		p[i] = v.Enc()
	}
	return strings.Join(p, ",")
}

func (v V) Eq(w V) bool { return v.Enc() == w.Enc() }

// Res is a model answer.
type Res struct {
	St   Status
	Vals []V
	// Why explains Err/Skip/Huge (for reports only).
	Why string
	// N is the size of the result (bytes for rep, values for unpack, elements
	// for move) when the status is Huge.
	N *big.Int
}

func val(vs ...V) Res            { return Res{St: Val, Vals: vs} }
func errR(why string) Res        { return Res{St: Err, Why: why} }
func skipR(why string) Res       { return Res{St: Skip, Why: why} }
func hugeR(why string) Res       { return Res{St: Huge, Why: why} }
func (r Res) defined() bool      { return r.St == Val }
func bigI(i int64) *big.Int      { return big.NewInt(i) }
func fits(x *big.Int) bool       { return x.IsInt64() }
func lt(a, b *big.Int) bool      { return a.Cmp(b) < 0 }
func gt(a, b *big.Int) bool      { return a.Cmp(b) > 0 }
func add(a, b *big.Int) *big.Int { return new(big.Int).Add(a, b) }
func sub(a, b *big.Int) *big.Int { return new(big.Int).Sub(a, b) }

var (
	one    = big.NewInt(1)
	maxInt = big.NewInt(math.MaxInt64)
)

// ---------------------------------------------------------------------------
// argument conversion (§3.4.3: a float with an exact integer value converts,
// any other float is an error; strings where numbers are expected and numbers
// where strings are expected are left open here)

type argSt int

const (
	argOK argSt = iota
	argAbsent
	argErr
	argSkip
)

func intArg(args []V, i int) (int64, argSt) {
	if i >= len(args) {
		return 0, argAbsent
	}
	v := args[i]
	switch v.K {
	case Int:
		return v.I, argOK
	case Float:
		if v.F == math.Floor(v.F) && v.F >= -9223372036854775808.0 && v.F < 9223372036854775808.0 {
			return int64(v.F), argOK
		}
		return 0, argErr
	case Str:
		return 0, argSkip // numeric strings coerce, others are errors: left open
	case Nil:
		return 0, argSkip // explicit nil for an optional argument: left open
	}
	return 0, argErr
}

func strArg(args []V, i int) (string, argSt) {
	if i >= len(args) {
		return "", argAbsent
	}
	v := args[i]
	switch v.K {
	case Str:
		return v.S, argOK
	case Int, Float:
		return "", argSkip // number -> string uses a non-specified format
	case Nil:
		return "", argSkip
	}
	return "", argErr
}

// required turns "absent" into an error for mandatory arguments.
func required(st argSt) argSt {
	if st == argAbsent {
		return argErr
	}
	return st
}

func stRes(st argSt, what string) Res {
	if st == argSkip {
		return skipR(what + ": conversion left open by the manual")
	}
	return errR(what + ": bad argument")
}

// ---------------------------------------------------------------------------
// §6.4 strings

// relStart translates a start position: negative counts from the end, then
// anything below 1 is corrected to 1 (string.sub, string.byte, string.find).
func relStart(pos int64, l int) int64 {
	if pos < 0 {
		// l + pos + 1 cannot overflow: pos < 0 <= l
		pos = int64(l) + pos + 1
	}
	if pos < 1 {
		pos = 1
	}
	return pos
}

// relEnd translates an end position: negative counts from the end, anything
// above the length is corrected to the length (may yield 0 or less => empty).
func relEnd(pos int64, l int) int64 {
	if pos < 0 {
		pos = int64(l) + pos + 1
	}
	if pos > int64(l) {
		pos = int64(l)
	}
	return pos
}

// Sub: string.sub(s, i [, j])
func Sub(args []V) Res {
	s, st := strArg(args, 0)
	if st = required(st); st != argOK {
		return stRes(st, "sub #1")
	}
	i, st := intArg(args, 1)
	if st = required(st); st != argOK {
		return stRes(st, "sub #2")
	}
	j, st := intArg(args, 2)
	switch st {
	case argAbsent:
		j = -1
	case argOK:
	default:
		return stRes(st, "sub #3")
	}
	a, b := relStart(i, len(s)), relEnd(j, len(s))
	if a > b {
		return val(S(""))
	}
	return val(S(s[a-1 : b]))
}

// Byte: string.byte(s [, i [, j]]); default i = 1, default j = i.
func Byte(args []V) Res {
	s, st := strArg(args, 0)
	if st = required(st); st != argOK {
		return stRes(st, "byte #1")
	}
	i, st := intArg(args, 1)
	switch st {
	case argAbsent:
		i = 1
	case argOK:
	default:
		return stRes(st, "byte #2")
	}
	j, st := intArg(args, 2)
	switch st {
	case argAbsent:
		j = i
	case argOK:
	default:
		return stRes(st, "byte #3")
	}
	a, b := relStart(i, len(s)), relEnd(j, len(s))
	var out []V
	for k := a; k <= b; k++ {
		out = append(out, I(int64(s[k-1])))
	}
	return val(out...)
}

// Char: string.char(...)
func Char(args []V) Res {
	buf := make([]byte, 0, len(args))
	for i := range args {
		c, st := intArg(args, i)
		if st != argOK {
			return stRes(st, "char")
		}
		if c < 0 || c > 255 {
			return errR("char: value out of range")
		}
		buf = append(buf, byte(c))
	}
	return val(S(string(buf)))
}

// MaxMaterialise is the largest result the model will build; anything larger
// is answered Huge.
const MaxMaterialise = 1 << 20

// Rep: string.rep(s, n [, sep]): n copies separated by sep, "" if n <= 0.
func Rep(args []V) Res {
	s, st := strArg(args, 0)
	if st = required(st); st != argOK {
		return stRes(st, "rep #1")
	}
	n, st := intArg(args, 1)
	if st = required(st); st != argOK {
		return stRes(st, "rep #2")
	}
	sep, st := strArg(args, 2)
	switch st {
	case argAbsent:
		sep = ""
	case argOK:
	default:
		return stRes(st, "rep #3")
	}
	if n <= 0 {
		return val(S(""))
	}
	total := new(big.Int).Mul(bigI(n), bigI(int64(len(s))))
	total.Add(total, new(big.Int).Mul(bigI(n-1), bigI(int64(len(sep)))))
	if total.Sign() == 0 {
		return val(S("")) // n copies of "" separated by "": nothing to allocate
	}
	if gt(total, bigI(MaxMaterialise)) {
		return Res{St: Huge, Why: "rep: result of " + total.String() + " bytes", N: total}
	}
	var b strings.Builder
	for k := int64(0); k < n; k++ {
		if k > 0 {
			b.WriteString(sep)
		}
		b.WriteString(s)
	}
	return val(S(b.String()))
}

func Reverse(args []V) Res {
	s, st := strArg(args, 0)
	if st = required(st); st != argOK {
		return stRes(st, "reverse #1")
	}
	b := make([]byte, len(s))
	for i := 0; i < len(s); i++ {
		b[len(s)-1-i] = s[i]
	}
	return val(S(string(b)))
}

// UpperASCII / LowerASCII are the C-locale mappings.
func UpperASCII(s string) string {
	b := []byte(s)
	for i, c := range b {
		if c >= 'a' && c <= 'z' {
			b[i] = c - 32
		}
	}
	return string(b)
}

func LowerASCII(s string) string {
	b := []byte(s)
	for i, c := range b {
		if c >= 'A' && c <= 'Z' {
			b[i] = c + 32
		}
	}
	return string(b)
}

func isASCII(s string) bool {
	for i := 0; i < len(s); i++ {
		if s[i] >= 0x80 {
			return false
		}
	}
	return true
}

// Upper / Lower: exact for ASCII-only strings.  With bytes >= 0x80 what is a
// letter depends on the locale, so the answer is Skip; CaseWeak gives the part
// every single-byte locale agrees on.
func Upper(args []V) Res {
	s, st := strArg(args, 0)
	if st = required(st); st != argOK {
		return stRes(st, "upper #1")
	}
	if !isASCII(s) {
		return skipR("upper: letters >= 0x80 depend on the locale")
	}
	return val(S(UpperASCII(s)))
}

func Lower(args []V) Res {
	s, st := strArg(args, 0)
	if st = required(st); st != argOK {
		return stRes(st, "lower #1")
	}
	if !isASCII(s) {
		return skipR("lower: letters >= 0x80 depend on the locale")
	}
	return val(S(LowerASCII(s)))
}

// CaseWeak checks what holds of string.upper/lower(in) = out in *every*
// locale of the C library: characters map to characters, so the length is
// kept and every ASCII byte sits at its place, mapped by the ASCII rule.  It
// is meant for inputs whose bytes >= 0x80 are not part of any valid UTF-8
// sequence (so that no multi-byte reading of the input exists either).
func CaseWeak(in, out string, upper bool) bool {
	if len(in) != len(out) {
		return false
	}
	for i := 0; i < len(in); i++ {
		if in[i] < 0x80 {
			want := LowerASCII(in[i : i+1])
			if upper {
				want = UpperASCII(in[i : i+1])
			}
			if out[i] != want[0] {
				return false
			}
		} else if out[i] < 0x80 {
			return false
		}
	}
	return true
}

func Len(args []V) Res {
	s, st := strArg(args, 0)
	if st = required(st); st != argOK {
		return stRes(st, "len #1")
	}
	return val(I(int64(len(s))))
}

// HasSpecials reports whether p contains a pattern magic character.
func HasSpecials(p string) bool { return strings.ContainsAny(p, "^$*+?.([%-") }

// Find: string.find(s, pattern [, init [, plain]]) for plain searches: plain
// is true, or the pattern has no magic characters (then a pattern match is a
// substring match).  Other patterns are C15's business: Skip.
func Find(args []V) Res {
	s, st := strArg(args, 0)
	if st = required(st); st != argOK {
		return stRes(st, "find #1")
	}
	p, st := strArg(args, 1)
	if st = required(st); st != argOK {
		return stRes(st, "find #2")
	}
	init, st := intArg(args, 2)
	switch st {
	case argAbsent:
		init = 1
	case argOK:
	default:
		return stRes(st, "find #3")
	}
	plain := false
	if len(args) > 3 {
		v := args[3]
		plain = !(v.K == Nil || (v.K == Bool && !v.B))
	}
	if !plain && HasSpecials(p) {
		return skipR("find: a real pattern")
	}
	start := relStart(init, len(s)) // init 0 is read as 1, like every start position
	if start > int64(len(s))+1 {
		return val(NilV) // no match can start beyond the end
	}
	k := strings.Index(s[start-1:], p)
	if k < 0 {
		return val(NilV)
	}
	from := start + int64(k)
	return val(I(from), I(from+int64(len(p))-1))
}

// ---------------------------------------------------------------------------
// §6.6 tables

// Store is the integer-keyed content of a table (other keys in Other).
type Store struct {
	M     map[int64]V
	Other map[string]V
}

func NewStore() *Store { return &Store{M: map[int64]V{}, Other: map[string]V{}} }

func SeqStore(vs ...V) *Store {
	s := NewStore()
	for i, v := range vs {
		s.Set(int64(i+1), v)
	}
	return s
}

func (s *Store) Get(k int64) V { return s.M[k] }
func (s *Store) Set(k int64, v V) {
	if v.K == Nil {
		delete(s.M, k)
	} else {
		s.M[k] = v
	}
}

func (s *Store) Clone() *Store {
	c := NewStore()
	for k, v := range s.M {
		c.M[k] = v
	}
	for k, v := range s.Other {
		c.Other[k] = v
	}
	return c
}

func (s *Store) Keys() []int64 {
	ks := make([]int64, 0, len(s.M))
	for k := range s.M {
		ks = append(ks, k)
	}
	sort.Slice(ks, func(i, j int) bool { return ks[i] < ks[j] })
	return ks
}

func (s *Store) Equal(o *Store) bool {
	if len(s.M) != len(o.M) || len(s.Other) != len(o.Other) {
		return false
	}
	for k, v := range s.M {
		if w, ok := o.M[k]; !ok || !v.Eq(w) {
			return false
		}
	}
	for k, v := range s.Other {
		if w, ok := o.Other[k]; !ok || !v.Eq(w) {
			return false
		}
	}
	return true
}

func (s *Store) String() string {
	var b strings.Builder
	b.WriteByte('{')
	for i, k := range s.Keys() {
		if i > 0 {
			b.WriteString(", ")
		}
		b.WriteString("[" + strconv.FormatInt(k, 10) + "]=" + s.M[k].Enc())
	}
	oks := make([]string, 0, len(s.Other))
	for k := range s.Other {
		oks = append(oks, k)
	}
	sort.Strings(oks)
	for _, k := range oks {
		b.WriteString(", " + k + "=" + s.Other[k].Enc())
	}
	b.WriteByte('}')
	return b.String()
}

// SeqLen returns n when the positive integer keys are exactly 1..n, i.e. when
// the table has the single border n (§3.4.7); ok=false when the length
// operator may return several values.
func (s *Store) SeqLen() (n int64, ok bool) {
	pos := 0
	for k := range s.M {
		if k > 0 {
			pos++
		}
	}
	for i := 1; i <= pos; i++ {
		if _, in := s.M[int64(i)]; !in {
			return 0, false
		}
	}
	return int64(pos), true
}

// MaxLoop bounds the loops the model is willing to run itself.
const MaxLoop = 1 << 16

// Insert: table.insert(list, [pos,] value).  args are the arguments after the
// list; L is #list.
func Insert(t *Store, L int64, args []V) Res {
	if L < 0 {
		return skipR("insert: negative length")
	}
	if L == math.MaxInt64 {
		return skipR("insert: #list+1 overflows")
	}
	e := L + 1
	var pos int64
	var v V
	switch len(args) {
	case 1:
		pos, v = e, args[0]
	case 2:
		p, st := intArg(args, 0)
		if st != argOK {
			return stRes(st, "insert #2")
		}
		if p < 1 || p > e {
			return errR("insert: position out of bounds")
		}
		pos, v = p, args[1]
		if e-pos > MaxLoop {
			return hugeR("insert: shifting too many elements")
		}
		for i := e; i > pos; i-- {
			t.Set(i, t.Get(i-1))
		}
	case 0:
		return errR("insert: wrong number of arguments")
	default:
		// the reference raises "wrong number of arguments"; the manual only
		// gives the two signatures
		return skipR("insert: more than three arguments")
	}
	t.Set(pos, v)
	return val()
}

// Remove: table.remove(list [, pos]).
func Remove(t *Store, L int64, args []V) Res {
	if L < 0 {
		return skipR("remove: negative length")
	}
	size := L
	pos, st := intArg(args, 0)
	switch st {
	case argAbsent:
		pos = size
	case argOK:
	default:
		return stRes(st, "remove #2")
	}
	if size == math.MaxInt64 && pos == math.MinInt64 {
		return skipR("remove: #list+1 overflows")
	}
	if pos != size {
		// pos must be in [1, size+1]
		if pos < 1 || gt(bigI(pos), add(bigI(size), one)) {
			return errR("remove: position out of bounds")
		}
	}
	if size-pos > MaxLoop {
		return hugeR("remove: shifting too many elements")
	}
	ret := t.Get(pos)
	for ; pos < size; pos++ {
		t.Set(pos, t.Get(pos+1))
	}
	t.Set(pos, NilV)
	return val(ret)
}

// Move: table.move(a1, f, e, t [, a2]) = "a2[t],... = a1[f],...,a1[e]" with
// all reads of the multiple assignment done on the old contents.  a2 == nil
// means a1.  The result value is the destination table, which the caller
// checks by identity; Vals is empty.
//
// Ranges too long to walk are still given an exact final content (only the
// keys present in the source matter), with status Huge: a quota kill or an
// error is as acceptable as completing.
func Move(a1 *Store, args []V, a2 *Store) Res {
	f, st := intArg(args, 0)
	if st = required(st); st != argOK {
		return stRes(st, "move #2")
	}
	e, st := intArg(args, 1)
	if st = required(st); st != argOK {
		return stRes(st, "move #3")
	}
	t, st := intArg(args, 2)
	if st = required(st); st != argOK {
		return stRes(st, "move #4")
	}
	dst := a2
	if dst == nil {
		dst = a1
	}
	if e < f {
		return val()
	}
	n := add(sub(bigI(e), bigI(f)), one) // number of elements
	// last destination index t+n-1 must be an integer
	if gt(sub(add(bigI(t), n), one), maxInt) {
		return errR("move: destination wrap around")
	}
	// "The number of elements to be moved must fit in a Lua integer": the
	// reference raises "too many elements to move"; the assignment itself is
	// still well defined (no index wraps), so completing it exactly - e.g. by
	// noticing that source and destination coincide - is accepted as well.
	tooMany := gt(n, maxInt)
	// snapshot of the source range, then clear + fill the destination range
	type kv struct {
		k int64
		v V
	}
	var moved []kv
	for k, v := range a1.M {
		if k >= f && k <= e {
			// t <= t+(k-f) <= t+n-1 <= maxint: fits, but k-f alone may not
			moved = append(moved, kv{add(bigI(t), sub(bigI(k), bigI(f))).Int64(), v})
		}
	}
	last := sub(add(bigI(t), n), one).Int64() // fits: t <= last <= maxint
	for k := range dst.M {
		if k >= t && k <= last {
			delete(dst.M, k)
		}
	}
	for _, m := range moved {
		dst.Set(m.k, m.v)
	}
	if tooMany {
		return Res{St: Huge, Why: "move: too many elements to move (" + n.String() + ")", N: n}
	}
	if gt(n, bigI(MaxLoop)) {
		return Res{St: Huge, Why: "move: " + n.String() + " elements", N: n}
	}
	return val()
}

// Concat: table.concat(list [, sep [, i [, j]]]).
func Concat(t *Store, L int64, args []V) Res {
	sep, st := strArg(args, 0)
	switch st {
	case argAbsent:
		sep = ""
	case argOK:
	default:
		return stRes(st, "concat #2")
	}
	i, st := intArg(args, 1)
	switch st {
	case argAbsent:
		i = 1
	case argOK:
	default:
		return stRes(st, "concat #3")
	}
	j, st := intArg(args, 2)
	switch st {
	case argAbsent:
		j = L
	case argOK:
	default:
		return stRes(st, "concat #4")
	}
	if i > j {
		return val(S(""))
	}
	var b strings.Builder
	steps := 0
	for k := i; ; k++ {
		v := t.Get(k)
		switch v.K {
		case Str:
			b.WriteString(v.S)
		case Int:
			b.WriteString(strconv.FormatInt(v.I, 10))
		case Float:
			return skipR("concat: float to string format is not specified")
		default:
			return errR("concat: invalid value at index " + strconv.FormatInt(k, 10))
		}
		if k == j {
			break
		}
		b.WriteString(sep)
		steps++
		if steps > MaxLoop || b.Len() > MaxMaterialise {
			return hugeR("concat: too long")
		}
	}
	return val(S(b.String()))
}

// UnpackMust is the number of results every call must be able to return; the
// manual gives no limit, implementations have one ("too many results to
// unpack").  Between UnpackMust and UnpackMay both an error and the exact
// result are accepted; above UnpackMay completing is impossible.
const (
	UnpackMust       = 64
	UnpackMay        = 1 << 16
	UnpackImpossible = 1 << 24 // more values than a 64 MB context can hold
)

// Unpack: table.unpack(list [, i [, j]]) = list[i], ..., list[j].
// For St == Huge, Vals is nil; for ranges in (UnpackMust, UnpackMay] the
// status is Huge with the exact values in Vals (caller accepts error or Vals).
func Unpack(t *Store, L int64, args []V) Res {
	i, st := intArg(args, 0)
	switch st {
	case argAbsent:
		i = 1
	case argOK:
	default:
		return stRes(st, "unpack #2")
	}
	j, st := intArg(args, 1)
	switch st {
	case argAbsent:
		j = L
	case argOK:
	default:
		return stRes(st, "unpack #3")
	}
	if i > j {
		return val()
	}
	n := add(sub(bigI(j), bigI(i)), one)
	if gt(n, bigI(UnpackMay)) {
		return Res{St: Huge, Why: "unpack: " + n.String() + " results", N: n}
	}
	out := make([]V, 0, n.Int64())
	for k := i; ; k++ {
		out = append(out, t.Get(k))
		if k == j {
			break
		}
	}
	if gt(n, bigI(UnpackMust)) {
		return Res{St: Huge, Vals: out, N: n, Why: "unpack: more results than every implementation must support"}
	}
	return val(out...)
}

// Pack: table.pack(...) = a new table with the arguments at 1..n and field n.
func Pack(args []V) *Store {
	s := NewStore()
	for i, v := range args {
		s.Set(int64(i+1), v)
	}
	s.Other["n"] = I(int64(len(args)))
	return s
}

// ---------------------------------------------------------------------------
// sort

// Less is the standard operator < on the values used in sort workloads:
// numbers compare exactly (the workloads only use floats that are exact in
// both directions), strings bytewise (the workloads only use ASCII lower-case
// letters and digits, where every locale agrees); anything else is an error.
func Less(a, b V) (lt bool, ok bool) {
	num := func(v V) bool { return v.K == Int || v.K == Float }
	switch {
	case num(a) && num(b):
		return numLess(a, b), true
	case a.K == Str && b.K == Str:
		return a.S < b.S, true
	}
	return false, false
}

func numLess(a, b V) bool {
	if a.K == Int && b.K == Int {
		return a.I < b.I
	}
	ra, rb := new(big.Rat), new(big.Rat)
	set := func(r *big.Rat, v V) bool {
		if v.K == Int {
			r.SetInt64(v.I)
			return true
		}
		if v.F != v.F || math.IsInf(v.F, 0) {
			return false
		}
		r.SetFloat64(v.F)
		return true
	}
	oka, okb := set(ra, a), set(rb, b)
	if !oka || !okb {
		fa, fb := toF(a), toF(b)
		return fa < fb // NaN: false; infinities order correctly against finite values
	}
	return ra.Cmp(rb) < 0
}

func toF(v V) float64 {
	if v.K == Int {
		return float64(v.I)
	}
	return v.F
}

// SameMultiset reports whether b is a permutation of a.
func SameMultiset(a, b []V) bool {
	if len(a) != len(b) {
		return false
	}
	cnt := map[string]int{}
	for _, v := range a {
		cnt[v.Enc()]++
	}
	for _, v := range b {
		e := v.Enc()
		cnt[e]--
		if cnt[e] < 0 {
			return false
		}
	}
	return true
}

// FirstUnordered returns the first i with less(l[i+1], l[i]) ("after the sort,
// i <= j implies not comp(list[j], list[i])"; for a strict weak order adjacent
// pairs suffice), or -1.
func FirstUnordered(l []V, less func(a, b V) bool) int {
	for i := 0; i+1 < len(l); i++ {
		if less(l[i+1], l[i]) {
			return i
		}
	}
	return -1
}
