// Package quota holds what the C05 (CPU) and C06 (memory) checks share: running
// a program in a fresh runtime inside a limited context, the corpus of
// programs, the "interceptor" templates that try to survive a kill, and the
// list of library calls with a size parameter.
package quota

import (
	"fmt"
	"math/rand"
	"regexp"
	"strings"
	"syscall"

	rt "github.com/arnodel/golua/runtime"

	"verif/internal/eng"
	"verif/internal/gl"
	"verif/internal/lg"
	"verif/internal/vp"
)

// Run runs text in a fresh runtime inside a context with the given hard limits
// (0 = unlimited) and returns the outcome (Kind, CtxStatus, UsedCPU, UsedMem, trace).
func Run(text string, args []eng.Arg, cpu, mem uint64) *gl.Outcome {
	s := gl.NewSess(gl.Options{})
	defer s.Close()
	clos, out := s.Compile(eng.ChunkName, text)
	if out != nil {
		return out
	}
	rargs := make([]rt.Value, len(args))
	for i, a := range args {
		rargs[i] = a.Rt
	}
	return s.CallInContext(rt.RuntimeContextDef{HardLimits: rt.RuntimeResources{Cpu: cpu, Memory: mem}}, rt.FunctionValue(clos), rargs)
}

// Program is a corpus entry.
type Program struct {
	Label string
	Text  string
	Args  []eng.Arg
}

func options(r *rand.Rand) lg.GenOptions {
	o := lg.DefaultGenOptions()
	o.Stmts = 10 + r.Intn(30)
	o.WPcall = 10
	o.WCoroutine = 8
	o.WTBC = 8
	o.WError = 6
	o.NoYieldInPcall = true
	return o
}

// Corpus returns n generated programs that the reference interpreter can run
// to completion (so they terminate and are moderately small), as source text.
func Corpus(c *vp.Child, n int, salt int64) []Program {
	var out []Program
	for i := 0; len(out) < n && i < 4*n+50; i++ {
		p, r := eng.GenProgram(c.Seed, salt, i, options)
		text, lines := lg.Render(p.Chunk, lg.Style{})
		args := eng.ArgsFor(r, p.ArgKinds)
		ref := eng.RunRef(p, lines, args)
		if ref.Kind == "unspecified" {
			rs := ref.Reason
			if strings.Contains(rs, "fuel") || strings.Contains(rs, "too l") || strings.Contains(rs, "depth") || strings.Contains(rs, "invalid") || strings.Contains(rs, "panic") {
				continue
			}
		}
		out = append(out, Program{Label: fmt.Sprintf("gen%d", i), Text: text, Args: args})
	}
	return out
}

// closers defines mk(id): a closable value whose handler emits.
const closers = `local function mk(id) return setmetatable({}, {__close = function(o, e) emit("close", id) end, __gc = function() emit("gc", id) end}) end
`

// Interceptors are programs that never end by themselves and try to keep
// running Lua code after the limit is hit. $WORK is replaced by a statement
// that consumes the resource under test (cpu: an empty loop body; memory: a
// growing table).
var Interceptors = []struct{ Name, Src string }{
	{"pcall-retry-loop", closers + `
local n = 0
while true do
  local ok, e = pcall(function() while true do n = n + 1; $WORK end end)
  emit("caught", ok)
end`},
	{"xpcall-looping-handler", closers + `
xpcall(function() local n = 0 while true do n = n + 1; $WORK end end, function(m) emit("handler"); while true do $WORK end end)
emit("after xpcall")
while true do $WORK end`},
	{"nested-pcall", closers + `
local function deep(d) if d == 0 then while true do $WORK end end return pcall(deep, d - 1) end
while true do emit("again", pcall(deep, 5)) end`},
	{"coroutine-pcall-body", closers + `
local co = coroutine.wrap(function() while true do pcall(function() while true do $WORK end end); emit("co survived"); coroutine.yield() end end)
while true do pcall(co); emit("main survived") end`},
	{"close-pending-main", closers + `
local a <close> = mk(1)
do
  local b <close> = mk(2)
  pcall(function() local c <close> = mk(3); while true do $WORK end end)
  emit("after pcall")
end
while true do $WORK end`},
	{"close-pending-coroutine", closers + `
local co = coroutine.create(function() local a <close> = mk(4); coroutine.yield(1); local b <close> = mk(5); while true do $WORK end end)
emit(coroutine.resume(co))
emit(coroutine.resume(co))
emit("after resume", coroutine.status(co))
while true do $WORK end`},
	{"gc-handlers", closers + `
for i = 1, 50 do mk(100 + i) end
local keep = mk(7)
while true do local t = mk(8); $WORK end`},
	{"error-handler-chain", closers + `
local function thrower() error(setmetatable({}, {__tostring = function() while true do $WORK end end})) end
while true do
  local ok, e = pcall(thrower)
  emit("caught", ok)
  pcall(tostring, e)
  emit("tostring survived")
end`},
	{"metamethod-loop", closers + `
local o = setmetatable({}, {__index = function(t, k) while true do $WORK end end, __add = function() while true do $WORK end end})
emit(pcall(function() return o.x end))
emit(pcall(function() return o + 1 end))
while true do $WORK end`},
	{"callcontext-inside", closers + `
local c = runtime.callcontext({kill = {cpu = 1000000000, memory = 1000000000}}, function() while true do $WORK end end)
emit("inner ended", c.status)
while true do $WORK end`},
	{"sort-comparator", closers + `
local t = {} for i = 1, 200 do t[i] = (i * 7919) % 211 end
while true do
  pcall(table.sort, t, function(a, b) $WORK; return a < b end)
  emit("sorted")
end`},
	{"close-handler-loops-in-dying-coroutine", closers + `
local co = coroutine.create(function()
  local c <close> = setmetatable({}, {__close = function() emit("handler"); while true do $WORK end end})
  for i = 1, 30 do $WORK end
  error("dies")
end)
emit("resume", coroutine.resume(co))
emit("after resume")
while true do $WORK end`},
	{"close-handler-loops-on-coroutine-close", closers + `
local co = coroutine.create(function()
  local c <close> = setmetatable({}, {__close = function() emit("handler"); while true do $WORK end end})
  coroutine.yield(1)
end)
emit("resume", coroutine.resume(co))
emit("close", coroutine.close(co))
emit("after close")
while true do $WORK end`},
	{"close-handler-loops-in-wrap", closers + `
local w = coroutine.wrap(function()
  local c <close> = setmetatable({}, {__close = function() emit("handler"); while true do $WORK end end})
  return 1
end)
emit("call", pcall(w))
emit("after call")
while true do $WORK end`},
	{"close-handler-loops-in-pcall", closers + `
emit("pcall", pcall(function()
  local c <close> = setmetatable({}, {__close = function() emit("handler"); while true do $WORK end end})
  error("x")
end))
emit("after pcall")
while true do $WORK end`},
	{"gsub-callback", closers + `
while true do
  pcall(string.gsub, ("x"):rep(200), "x", function(c) $WORK; return c end)
  emit("gsub done")
end`},
	// the body itself ends; the finalisers of the values it created run when the context is
	// left and need far more than any limit of the ladder (a bounded loop, so that a broken
	// tree ends with the wrong status instead of hanging)
	{"finaliser-after-error-exit", closers + `
setmetatable({}, {__gc = function() emit("finaliser") for i = 1, 6000000 do $WORK end emit("finaliser finished") end})
emit("body")
error("boom")`},
	{"finaliser-after-error-value-exit", closers + `
local keep = setmetatable({}, {__gc = function() emit("finaliser") for i = 1, 6000000 do $WORK end emit("finaliser finished") end})
emit("body")
error(setmetatable({}, {__tostring = function() return "x" end}))`},
	{"finaliser-after-return", closers + `
setmetatable({}, {__gc = function() emit("finaliser") for i = 1, 6000000 do $WORK end emit("finaliser finished") end})
emit("body")
return 1`},
	{"finaliser-after-close-handler-error", closers + `
setmetatable({}, {__gc = function() emit("finaliser") for i = 1, 6000000 do $WORK end emit("finaliser finished") end})
local c <close> = setmetatable({}, {__close = function() error("from close") end})
emit("body")`},
}

// Amplifiers are library calls whose work or allocation depends on a size
// parameter $N chosen by the program.
var Amplifiers = []struct{ Name, Src string }{
	{"string.rep", `return #string.rep("x", $N)`},
	{"string.rep-sep", `return #string.rep("ab", $N, ",")`},
	{"string.rep-empty", `return #string.rep("", $N)`},
	{"string.format-width", `return #string.format("%" .. math.min($N, 99) .. "s", "x")`},
	{"string.format-many", `return #string.format(("%d"):rep(math.min($N, 100000)), table.unpack({}, 1, math.min($N, 200)))`},
	{"string.pack-c", `return #string.pack("c" .. $N, "x")`},
	{"string.pack-rep", `return #string.pack(("i8"):rep(math.min($N, 100000)), table.unpack({}, 1, 1))`},
	{"string.byte-range", `return select("#", string.byte(("x"):rep(1000), 1, $N))`},
	{"string.sub", `return #string.sub(("x"):rep(1000), 1, $N)`},
	{"string.char-unpack", `return #string.char(table.unpack({}, 1, $N))`},
	{"table.concat", `return #table.concat({}, ",", 1, $N)`},
	{"table.concat-big", `local t = {} for i = 1, math.min($N, 100000) do t[i] = "ab" end return #table.concat(t, ",")`},
	{"table.unpack", `return select("#", table.unpack({}, 1, $N))`},
	{"table.move", `return #table.move({1, 2, 3}, 1, $N, 2)`},
	{"table.insert-pos", `local t = {} table.insert(t, $N, 1) return #t`},
	{"table.pack-select", `return select($N, 1, 2, 3)`},
	{"select-negative", `return select(-$N, 1, 2, 3)`},
	{"utf8.char", `return #utf8.char(table.unpack({}, 1, $N))`},
	{"utf8.codepoint", `return select("#", utf8.codepoint(("x"):rep(1000), 1, $N))`},
	{"utf8.len", `return utf8.len(("x"):rep(1000), 1, $N)`},
	{"utf8.offset", `return utf8.offset(("x"):rep(1000), $N)`},
	{"load-huge", `return load(("x = 1 "):rep(math.min($N, 3000000)))`},
	{"load-reader", `local n = 0 return load(function() n = n + 1 if n > $N then return nil end return "x = 1 " end)`},
	{"string.find-pathological", `return string.find(("a"):rep(math.min($N, 28)) .. "b", ("a-"):rep(math.min($N, 28)) .. "c")`},
	{"string.gsub-anchors", `return #string.gsub(("a"):rep(math.min($N, 100000)), "a*", "b")`},
	{"string.gmatch", `local n = 0 for w in string.gmatch(("ab "):rep(math.min($N, 1000000)), "%a+") do n = n + 1 end return n`},
	{"table.sort", `local t = {} for i = 1, math.min($N, 200000) do t[i] = (i * 7919) % 10007 end table.sort(t) return #t`},
	{"table.sort-cmp", `local t = {} for i = 1, math.min($N, 100000) do t[i] = (i * 7919) % 10007 end table.sort(t, function(a, b) return a > b end) return #t`},
	{"string.dump", `local src = {} for i = 1, math.min($N, 20000) do src[i] = "local v" .. i .. " = " .. i end return #string.dump(load(table.concat(src, "\n")))`},
	{"string.reverse-upper", `return #string.reverse(string.upper(("x"):rep(math.min($N, 50000000))))`},
	{"coroutine-storm", `local n = 0 for i = 1, math.min($N, 10000000) do local co = coroutine.create(function() coroutine.yield() end); coroutine.resume(co); n = n + 1 end return n`},
	{"closure-storm", `local t = {} for i = 1, math.min($N, 100000000) do t[#t + 1] = function() return i end end return #t`},
	{"concat-loop", `local s = "" for i = 1, math.min($N, 100000000) do s = s .. "x" end return #s`},
	{"tostring-loop", `local t = {} for i = 1, math.min($N, 100000000) do t[i] = tostring(i) end return #t`},
	{"table.remove-loop", `local t = {} for i = 1, math.min($N, 3000) do t[i] = i end for i = 1, #t do table.remove(t, 1) end return #t`},
	// results whose size is the PRODUCT of two program-chosen sizes: one long value referred to many times
	{"gsub-repl-whole-match-refs", `local s = ("x"):rep(math.min($N, 20000)) return #(s:gsub(".+", ("%0"):rep(math.min($N, 2000))))`},
	{"gsub-repl-capture-refs", `local s = ("x"):rep(math.min($N, 20000)) return #(s:gsub("(.+)", ("%1"):rep(math.min($N, 2000))))`},
	{"gsub-repl-implicit-capture", `local s = ("x"):rep(math.min($N, 20000)) return #(s:gsub(".+", ("%1-"):rep(math.min($N, 2000))))`},
	{"gsub-table-repl", `local s = ("ab"):rep(math.min($N, 3000)) local big = ("y"):rep(math.min($N, 20000)) return #(s:gsub("a", {a = big}))`},
	{"gsub-function-repl", `local s = ("ab"):rep(math.min($N, 3000)) local big = ("y"):rep(math.min($N, 20000)) return #(s:gsub("a", function() return big end))`},
	{"format-many-long-strings", `local s = ("x"):rep(math.min($N, 20000)) local n = math.min($N, 2000) local t = {} for i = 1, n do t[i] = s end return #string.format(("%s"):rep(n), table.unpack(t))`},
	{"format-q-long", `local s = ("\n"):rep(math.min($N, 5000000)) return #string.format("%q", s)`},
	{"concat-same-long-string", `local s = ("x"):rep(math.min($N, 20000)) local t = {} for i = 1, math.min($N, 2000) do t[i] = s end return #table.concat(t, s)`},
	{"rep-of-rep", `return #(("x"):rep(math.min($N, 20000)):rep(math.min($N, 2000), ("y"):rep(math.min($N, 1000))))`},
	{"concat-operator-doubling", `local s = ("x"):rep(1000) for i = 1, math.min($N, 40) do s = s .. s end return #s`},
	{"upper-lower-reverse-chain", `local s = ("x"):rep(math.min($N, 30000000)) return #(s:upper():lower():reverse())`},
	{"pack-many-strings", `local s = ("x"):rep(math.min($N, 20000)) local n = math.min($N, 200) local t = {} for i = 1, n do t[i] = s end return #string.pack(("s4"):rep(n), table.unpack(t))`},
	{"unpack-many-strings", `local n = math.min($N, 100000) local p = string.pack("s4", ("x"):rep(1000)) return select("#", string.unpack(("s4"):rep(math.min(n, 200)), p:rep(math.min(n, 200))))`},
	{"utf8.char-many", `local t = {} for i = 1, math.min($N, 200) do t[i] = 0x10FFFF end local s = utf8.char(table.unpack(t)) return #s:rep(math.min($N, 100000))`},
	{"tostring-table-keys", `local t = {} for i = 1, math.min($N, 2000000) do t["k" .. i] = i end return 1`},
	// live data held across child contexts while memory charged to the enclosing context
	// (a coroutine's stack, the frames of a suspended coroutine) is released inside them;
	// they return the number of bytes still held
	{"holds-strings-while-coroutines-end-in-pcall", `local keep = {} local n = math.min($N, 12000) for i = 1, n do keep[i] = false end
local function nop() end
for i = 1, n do local co = coroutine.create(nop) pcall(function() keep[i] = ("x"):rep(1500) coroutine.resume(co) end) end
local live = 0 for i = 1, n do live = live + #(keep[i] or "") end return live`},
	{"holds-strings-while-frames-return-in-pcall", `local keep, nkept = {}, 0 local rounds = math.min($N, 150) for i = 1, rounds * 30 do keep[i] = false end
function keepstring() nkept = nkept + 1 keep[nkept] = ("x"):rep(4000) end
local names = {} for i = 1, 200 do names[i] = "a" .. i end
local fat = load("local function fat(n) local " .. table.concat(names, ",") .. " if n > 1 then fat(n - 1) end coroutine.yield() keepstring() end return fat")()
for r = 1, rounds do local co = coroutine.wrap(fat) co(30) for i = 1, 30 do pcall(co) end end
local live = 0 for i = 1, nkept do live = live + #(keep[i] or "") end return live`},
	{"holds-strings-while-coroutines-end-in-xpcall-and-callcontext", `local keep = {} local n = math.min($N, 12000) for i = 1, n do keep[i] = false end
local function nop() end
for i = 1, n do local co = coroutine.create(nop)
  if i % 2 == 0 then xpcall(function() keep[i] = ("x"):rep(1500) coroutine.resume(co) end, print)
  else runtime.callcontext({}, function() keep[i] = ("x"):rep(1500) coroutine.resume(co) end) end end
local live = 0 for i = 1, n do live = live + #(keep[i] or "") end return live`},
	{"string.byte-to-table", `local s = ("x"):rep(math.min($N, 200)) local t = {} for i = 1, math.min($N, 100000) do t[i] = {s:byte(1, -1)} end return #t`},
}

// Sizes are the values substituted for $N.
var Sizes = []string{"1000", "1000000", "2147483648", "1099511627776", "math.maxinteger"}

// CPUTime returns the CPU time (user+system) used so far by this process, in seconds.
func CPUTime() float64 {
	var ru syscall.Rusage
	if err := syscall.Getrusage(syscall.RUSAGE_SELF, &ru); err != nil {
		return 0
	}
	return float64(ru.Utime.Sec) + float64(ru.Utime.Usec)/1e6 + float64(ru.Stime.Sec) + float64(ru.Stime.Usec)/1e6
}

// Calibrate returns the process CPU time this machine needs, right now, to
// allocate 64 MB of fresh memory four times and copy it once each: the kind of
// work a size amplifier legitimately does. On an idle machine it is around
// 0.1 s; on an overcommitted host (slow page faults) it has been seen above 5 s.
func Calibrate() float64 {
	t0 := CPUTime()
	var keep []byte
	for i := 0; i < 4; i++ {
		a := make([]byte, 64<<20)
		for j := 0; j < len(a); j += 4096 {
			a[j] = byte(j)
		}
		b := make([]byte, len(a))
		copy(b, a)
		keep = b
	}
	_ = keep
	return CPUTime() - t0
}

// ConfirmSlow decides whether a case whose first run used `first` seconds of
// CPU time (above `bound`) is slow because of the code or because of the
// machine: the case is run again up to three times, with a calibration run
// before each. It is confirmed (a verdict) only if every run exceeded the
// bound and the fastest run is more than 40 times the fastest calibration;
// it is inconclusive if every run exceeded the bound but the machine itself
// was that slow; otherwise the first measurement was noise.
func ConfirmSlow(first, bound float64, run func() float64) (confirmed, inconclusive bool, best, cal float64) {
	best = first
	cal = Calibrate()
	for i := 0; i < 3; i++ {
		dt := run()
		if dt < best {
			best = dt
		}
		if best <= bound {
			return false, false, best, cal
		}
		if c := Calibrate(); c < cal {
			cal = c
		}
	}
	if best > 40*cal {
		return true, false, best, cal
	}
	return false, true, best, cal
}

var addrRE = regexp.MustCompile(`0x[0-9a-f]{6,}`)

// Clean removes what legitimately differs between two runs of a program from a
// trace: __gc events (finaliser timing) and printed addresses.
func Clean(tr []string) []string {
	out := make([]string, 0, len(tr))
	for _, e := range tr {
		if strings.HasPrefix(e, `s:"gc"`) {
			continue
		}
		out = append(out, addrRE.ReplaceAllString(e, "0x?"))
	}
	return out
}

// IsPrefix reports whether a is a prefix of b.
func IsPrefix(a, b []string) bool {
	if len(a) > len(b) {
		return false
	}
	for i := range a {
		if a[i] != b[i] {
			return false
		}
	}
	return true
}
