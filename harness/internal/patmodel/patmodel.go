// Package patmodel is an executable reading of the Lua 5.4 manual §6.4.1
// (patterns) and of the string.find / match / gmatch / gsub entries of §6.4,
// written independently of golua: a pattern is first cut into items by a
// linear scan (which also decides well-formedness), then matched by a plain
// recursive backtracking matcher.
//
// Three verdict classes exist besides "well-formed":
//
//   - Malformed: the scan meets something no Lua accepts (pattern ends with
//     '%', missing ']', ')' without '(', unfinished capture, %n naming a
//     capture that is not closed at that point, %b without two characters, %f
//     without '[', more than 32 captures).  The reference implementation
//     raises these errors only when the malformed item is reached while
//     matching, so the model keeps the item as an "error item" and reports
//     whether a given match reached it.
//   - Unspec: the manual gives the construct no meaning (%q for an
//     alphanumeric q that is no class, descending ranges, ranges whose end is
//     an escape, '-' in the middle of a set, %b with equal delimiters, ...).
//     No verdict can be given on the result.
//   - Lenient: the manual does not define it but every Lua agrees (a magic
//     character such as '*' or ']' standing where it cannot have its magic
//     meaning is a literal; a back-reference to a position capture never
//     matches).  The model follows the reference; an error is accepted too.
package patmodel

import (
	"strconv"
)

// MaxCaptures is LUA_MAXCAPTURES of the reference implementation.
const MaxCaptures = 32

// Set is a set of bytes.
type Set [4]uint64

func (s *Set) add(b byte)      { s[b>>6] |= 1 << (b & 63) }
func (s *Set) Has(b byte) bool { return s[b>>6]>>(b&63)&1 != 0 }
func (s *Set) union(t Set) {
	for i := range s {
		s[i] |= t[i]
	}
}
func (s *Set) invert() {
	for i := range s {
		s[i] = ^s[i]
	}
}

func single(b byte) Set { var s Set; s.add(b); return s }

func fromPred(f func(b byte) bool) Set {
	var s Set
	for i := 0; i < 256; i++ {
		if f(byte(i)) {
			s.add(byte(i))
		}
	}
	return s
}

func isLower(b byte) bool { return b >= 'a' && b <= 'z' }
func isUpper(b byte) bool { return b >= 'A' && b <= 'Z' }
func isDigit(b byte) bool { return b >= '0' && b <= '9' }
func isAlpha(b byte) bool { return isLower(b) || isUpper(b) }
func isAlnum(b byte) bool { return isAlpha(b) || isDigit(b) }

// ClassSet returns the byte set of the class letter l (%a, %c, ... and their
// upper-case complements) in the C locale, or ok=false when l names no class.
func ClassSet(l byte) (Set, bool) {
	var s Set
	lower := l | 0x20
	switch lower {
	case 'a':
		s = fromPred(isAlpha)
	case 'c':
		s = fromPred(func(b byte) bool { return b < 32 || b == 127 })
	case 'd':
		s = fromPred(isDigit)
	case 'g':
		s = fromPred(func(b byte) bool { return b > 32 && b < 127 })
	case 'l':
		s = fromPred(isLower)
	case 'p':
		s = fromPred(func(b byte) bool { return b > 32 && b < 127 && !isAlnum(b) })
	case 's':
		s = fromPred(func(b byte) bool { return b == ' ' || (b >= 9 && b <= 13) })
	case 'u':
		s = fromPred(isUpper)
	case 'w':
		s = fromPred(isAlnum)
	case 'x':
		s = fromPred(func(b byte) bool { return isDigit(b) || (b|0x20 >= 'a' && b|0x20 <= 'f') })
	default:
		return s, false
	}
	if !isAlpha(l) {
		return s, false
	}
	if isUpper(l) {
		s.invert()
	}
	return s, true
}

type kind uint8

const (
	kSingle   kind = iota // single character class with optional quantifier
	kOpen                 // '(' : start capture n
	kPos                  // '()' : position capture n
	kClose                // ')' : close capture n
	kBackref              // %1..%9 (n = 0-based capture index)
	kBalanced             // %bxy
	kFrontier             // %f[set]
	kEnd                  // '$' as last character of the pattern
	kError                // reaching this item raises the error msg
)

type item struct {
	k     kind
	quant byte // 0, '*', '+', '-', '?'
	set   Set
	n     int
	x, y  byte
	msg   string
}

// Pattern is a scanned pattern.
type Pattern struct {
	Src      string
	Anchored bool // starts with '^'
	items    []item
	NCap     int
	// Malformed is the first static error ("" when there is none).
	Malformed string
	// Unspec is non-empty when the manual gives the pattern no meaning.
	Unspec string
	// Lenient is non-empty when the meaning is the reference's, not the manual's.
	Lenient string
	// Feature flags, for coverage accounting.
	Feat map[string]bool
	// UsesNamedClass: the pattern uses %a-like classes (locale dependent on
	// bytes >= 0x80).
	UsesNamedClass bool
	// unfinished[i]: capture i is never closed.
	unfinished [MaxCaptures]bool
}

// NItems is the number of items (tokens) of the scanned pattern.
func (p *Pattern) NItems() int { return len(p.items) }

const quantChars = "*+-?"

func isQuant(b byte) bool { return b == '*' || b == '+' || b == '-' || b == '?' }

// Compile scans a pattern.  It never fails: malformed parts become error items.
func Compile(src string) *Pattern {
	p := &Pattern{Src: src, Feat: map[string]bool{}}
	i := 0
	n := len(src)
	if n > 0 && src[0] == '^' {
		p.Anchored = true
		p.Feat["^"] = true
		i = 1
	}
	var open []int // stack of unclosed capture indices
	closed := [MaxCaptures]bool{}
	fail := func(msg string) {
		if p.Malformed == "" {
			p.Malformed = msg
		}
		p.items = append(p.items, item{k: kError, msg: msg})
	}
	unspec := func(why string) {
		if p.Unspec == "" {
			p.Unspec = why
		}
	}
	lenient := func(why string) {
		if p.Lenient == "" {
			p.Lenient = why
		}
	}
scan:
	for i < n {
		c := src[i]
		switch {
		case c == '(':
			if p.NCap >= MaxCaptures {
				fail("too many captures")
				break scan
			}
			if i+1 < n && src[i+1] == ')' {
				p.items = append(p.items, item{k: kPos, n: p.NCap})
				closed[p.NCap] = true
				p.NCap++
				p.Feat["()"] = true
				i += 2
				continue
			}
			p.items = append(p.items, item{k: kOpen, n: p.NCap})
			open = append(open, p.NCap)
			p.NCap++
			p.Feat["("] = true
			i++
			continue
		case c == ')':
			if len(open) == 0 {
				fail("invalid pattern capture")
				break scan
			}
			l := open[len(open)-1]
			open = open[:len(open)-1]
			closed[l] = true
			p.items = append(p.items, item{k: kClose, n: l})
			i++
			continue
		case c == '$' && i+1 == n:
			p.items = append(p.items, item{k: kEnd})
			p.Feat["$"] = true
			i++
			continue
		case c == '%' && i+1 < n && src[i+1] == 'b':
			if i+3 >= n {
				fail("missing arguments to '%b'")
				break scan
			}
			x, y := src[i+2], src[i+3]
			if x == y {
				unspec("%b with equal delimiters")
			}
			p.items = append(p.items, item{k: kBalanced, x: x, y: y})
			p.Feat["%b"] = true
			i += 4
			continue
		case c == '%' && i+1 < n && src[i+1] == 'f':
			if i+2 >= n || src[i+2] != '[' {
				fail("missing '[' after '%f' in pattern")
				break scan
			}
			set, next, msg := p.scanSet(src, i+2, unspec)
			if msg != "" {
				fail(msg)
				break scan
			}
			p.items = append(p.items, item{k: kFrontier, set: set})
			p.Feat["%f"] = true
			i = next
			continue
		case c == '%' && i+1 < n && isDigit(src[i+1]):
			d := int(src[i+1]-'0') - 1
			if d < 0 || d >= p.NCap || !closed[d] {
				fail("invalid capture index %" + string(src[i+1]))
				break scan
			}
			p.items = append(p.items, item{k: kBackref, n: d})
			p.Feat["%n"] = true
			i += 2
			continue
		}
		// single character class
		var set Set
		switch c {
		case '%':
			if i+1 >= n {
				fail("malformed pattern (ends with '%')")
				break scan
			}
			e := src[i+1]
			if cs, ok := ClassSet(e); ok {
				set = cs
				p.UsesNamedClass = true
				p.Feat["%class"] = true
			} else {
				if isAlnum(e) {
					unspec("% followed by an alphanumeric character that names no class")
				}
				set = single(e)
				p.Feat["%punct"] = true
			}
			i += 2
		case '[':
			s, next, msg := p.scanSet(src, i, unspec)
			if msg != "" {
				fail(msg)
				break scan
			}
			set = s
			p.Feat["[set]"] = true
			i = next
		case '.':
			set.invert()
			p.Feat["."] = true
			i++
		default:
			// '^' and '$' elsewhere represent themselves (the manual says so);
			// other magic characters here are literals by the reference only.
			if c == ']' || isQuant(c) {
				lenient("magic character '" + string(c) + "' in literal position")
			}
			set = single(c)
			p.Feat["lit"] = true
			i++
		}
		it := item{k: kSingle, set: set}
		if i < n && isQuant(src[i]) {
			it.quant = src[i]
			p.Feat[string(src[i])] = true
			i++
		}
		p.items = append(p.items, it)
	}
	if p.Malformed == "" && len(open) > 0 {
		p.Malformed = "unfinished capture"
	}
	for _, l := range open {
		p.unfinished[l] = true
	}
	// a back-reference to a position capture: the reference never matches it
	for _, it := range p.items {
		if it.k == kBackref {
			for _, jt := range p.items {
				if jt.k == kPos && jt.n == it.n {
					lenient("back-reference to a position capture")
				}
			}
		}
	}
	return p
}

// scanSet scans "[...]" starting at src[i]=='['.  Returns the set, the index
// after the closing bracket, or an error message.
func (p *Pattern) scanSet(src string, i int, unspec func(string)) (Set, int, string) {
	var set Set
	n := len(src)
	j := i + 1
	neg := false
	if j < n && src[j] == '^' {
		neg = true
		j++
		p.Feat["[^"] = true
	}
	// find the closing bracket: the first character is never the end; '%'
	// escapes the next character.
	end := -1
	for k, first := j, true; k < n; first = false {
		ch := src[k]
		if ch == ']' && !first {
			end = k
			break
		}
		if ch == '%' {
			if k-1 > j && src[k-1] == '-' {
				// "[a-%]": the reference reads '%]' as an escaped bracket and
				// goes on looking for the end; a reader that takes "a-%" as a
				// range is not wrong by the manual ("[a-%%] has no meaning")
				unspec("range whose last end is an escape")
			}
			k += 2
			continue
		}
		k++
	}
	if end < 0 || end > n {
		return set, 0, "malformed pattern (missing ']')"
	}
	if end == j { // cannot happen (first char is never the end), defensive
		return set, 0, "malformed pattern (missing ']')"
	}
	body := src[j:end]
	// If an escape swallowed past the end, the pattern is missing its ']'.
	// (handled by the loop above: k jumps by two, so end is a genuine ']')
	k := 0
	for k < len(body) {
		ch := body[k]
		if ch == '%' {
			if k+1 >= len(body) {
				// "[%]" : the escape ate the bracket; the reference looks
				// further for another ']'.  Our end search already skipped
				// it, so this cannot occur.
				return set, 0, "malformed pattern (missing ']')"
			}
			e := body[k+1]
			if cs, ok := ClassSet(e); ok {
				set.union(cs)
				p.UsesNamedClass = true
				p.Feat["[%class]"] = true
			} else {
				if isAlnum(e) {
					unspec("% followed by an alphanumeric character that names no class (in a set)")
				}
				set.add(e)
			}
			k += 2
			if k < len(body) && body[k] == '-' && k+1 < len(body) {
				unspec("range whose first end is an escape")
			}
			continue
		}
		if k+2 < len(body) && body[k+1] == '-' {
			// range ch - body[k+2]
			hi := body[k+2]
			if hi == '%' {
				unspec("range whose last end is an escape")
				k += 2
				continue
			}
			if ch == '-' || hi == '-' {
				unspec("'-' as an end of a range")
			}
			if ch == ']' {
				unspec("']' as the first end of a range")
			}
			if hi < ch {
				unspec("descending range")
			}
			for b := int(ch); b <= int(hi); b++ {
				set.add(byte(b))
			}
			p.Feat["[x-y]"] = true
			k += 3
			// a '-' right after a range that is not the last character
			if k < len(body) && body[k] == '-' && k+1 < len(body) {
				unspec("'-' right after a range")
			}
			continue
		}
		if ch == '-' && k != 0 && k != len(body)-1 {
			unspec("'-' in the middle of a set without being a range separator")
		}
		set.add(ch)
		k++
	}
	if neg {
		set.invert()
	}
	return set, end + 1, ""
}

// ---------------------------------------------------------------------------
// matching

const (
	capUnfinished = -1
	capPosition   = -2
)

// Cap is a capture of a successful match.
type Cap struct {
	Start, End int  // substring [Start,End) of the subject
	Pos        bool // position capture: the value is the integer Start+1
	Unfinished bool // never closed: touching it is the "unfinished capture" error
}

// Status of a model answer.
type Status int

const (
	NoMatch Status = iota
	Match
	Error    // an error item was reached
	TooLarge // the step budget of the model ran out: no answer
)

// Result of matching.
type Result struct {
	St         Status
	Start, End int
	Caps       []Cap
	Err        string
}

type capState struct{ start, l int }

type modelPanic struct {
	msg      string
	tooLarge bool
}

// Matcher holds the state of one subject/pattern pair.  Steps counts item
// visits (one per single-character test, per item entered and per start
// position tried).
type Matcher struct {
	p        *Pattern
	s        string
	caps     [MaxCaptures]capState
	Steps    int64
	MaxSteps int64
}

func NewMatcher(p *Pattern, s string) *Matcher {
	return &Matcher{p: p, s: s, MaxSteps: 1 << 62}
}

func (m *Matcher) tick() {
	m.Steps++
	if m.Steps > m.MaxSteps {
		panic(modelPanic{tooLarge: true})
	}
}

func (m *Matcher) test(it *item, si int) bool {
	m.tick()
	return si < len(m.s) && it.set.Has(m.s[si])
}

func (m *Matcher) match(pi, si int) int {
	items := m.p.items
	if pi == len(items) {
		return si
	}
	it := &items[pi]
	switch it.k {
	case kSingle:
		switch it.quant {
		case 0:
			if m.test(it, si) {
				return m.match(pi+1, si+1)
			}
			return -1
		case '?':
			if m.test(it, si) {
				if r := m.match(pi+1, si+1); r >= 0 {
					return r
				}
			}
			return m.match(pi+1, si)
		case '+', '*':
			i := 0
			for m.test(it, si+i) {
				i++
			}
			min := 0
			if it.quant == '+' {
				min = 1
			}
			for ; i >= min; i-- {
				if r := m.match(pi+1, si+i); r >= 0 {
					return r
				}
			}
			return -1
		case '-':
			for {
				if r := m.match(pi+1, si); r >= 0 {
					return r
				}
				if m.test(it, si) {
					si++
				} else {
					return -1
				}
			}
		}
	case kOpen:
		m.tick()
		m.caps[it.n] = capState{si, capUnfinished}
		return m.match(pi+1, si)
	case kPos:
		m.tick()
		m.caps[it.n] = capState{si, capPosition}
		return m.match(pi+1, si)
	case kClose:
		m.tick()
		m.caps[it.n].l = si - m.caps[it.n].start
		r := m.match(pi+1, si)
		if r < 0 {
			m.caps[it.n].l = capUnfinished
		}
		return r
	case kBackref:
		m.tick()
		c := m.caps[it.n]
		if c.l < 0 {
			return -1 // position capture: never equal to a substring
		}
		if len(m.s)-si >= c.l && m.s[c.start:c.start+c.l] == m.s[si:si+c.l] {
			return m.match(pi+1, si+c.l)
		}
		return -1
	case kBalanced:
		m.tick()
		if si >= len(m.s) || m.s[si] != it.x {
			return -1
		}
		depth := 1
		for j := si + 1; j < len(m.s); j++ {
			m.tick()
			ch := m.s[j]
			if ch == it.y {
				depth--
				if depth == 0 {
					return m.match(pi+1, j+1)
				}
			} else if ch == it.x {
				depth++
			}
		}
		return -1
	case kFrontier:
		m.tick()
		var prev, cur byte
		if si > 0 {
			prev = m.s[si-1]
		}
		if si < len(m.s) {
			cur = m.s[si]
		}
		if !it.set.Has(prev) && it.set.Has(cur) {
			return m.match(pi+1, si)
		}
		return -1
	case kEnd:
		m.tick()
		if si == len(m.s) {
			return m.match(pi+1, si)
		}
		return -1
	case kError:
		panic(modelPanic{msg: it.msg})
	}
	return -1
}

// At tries to match the pattern (without its '^') at exactly position si.
func (m *Matcher) At(si int) (res Result) {
	defer func() {
		if r := recover(); r != nil {
			mp, ok := r.(modelPanic)
			if !ok {
				panic(r)
			}
			if mp.tooLarge {
				res = Result{St: TooLarge}
			} else {
				res = Result{St: Error, Err: mp.msg}
			}
		}
	}()
	m.tick()
	e := m.match(0, si)
	if e < 0 {
		return Result{St: NoMatch}
	}
	res = Result{St: Match, Start: si, End: e}
	if m.p.NCap > 0 {
		res.Caps = make([]Cap, m.p.NCap)
		for i := 0; i < m.p.NCap; i++ {
			c := m.caps[i]
			switch {
			case m.p.unfinished[i] || c.l == capUnfinished:
				res.Caps[i] = Cap{Start: c.start, End: c.start, Unfinished: true}
			case c.l == capPosition:
				res.Caps[i] = Cap{Start: c.start, End: c.start, Pos: true}
			default:
				res.Caps[i] = Cap{Start: c.start, End: c.start + c.l}
			}
		}
	}
	return res
}

// Find is string.find/string.match's search: the leftmost match starting at or
// after the 0-based position init (init > len(s) gives no match); an anchored
// pattern is tried at init only.
func (m *Matcher) Find(init int) Result {
	if init > len(m.s) {
		return Result{St: NoMatch}
	}
	if init < 0 {
		init = 0
	}
	if m.p.Anchored {
		return m.At(init)
	}
	for si := init; si <= len(m.s); si++ {
		if r := m.At(si); r.St != NoMatch {
			return r
		}
	}
	return Result{St: NoMatch}
}

// FindUnanchored is Find for the pattern with a leading '^' treated as absent
// (what a matcher does when it is told to ignore the anchor).
func (m *Matcher) FindUnanchored(init int) Result {
	if init > len(m.s) {
		return Result{St: NoMatch}
	}
	for si := init; si <= len(m.s); si++ {
		if r := m.At(si); r.St != NoMatch {
			return r
		}
	}
	return Result{St: NoMatch}
}

// InitPos converts the Lua-level init argument (1-based, negative from the
// end) to a 0-based start position, as §6.4 prescribes for find/match/gmatch.
func InitPos(init int64, l int) int {
	switch {
	case init > 0:
		if init > int64(l)+1 {
			return l + 1
		}
		return int(init - 1)
	case init == 0:
		return 0
	case init < -int64(l):
		return 0
	default:
		return l + int(init)
	}
}

// ---------------------------------------------------------------------------
// values, gmatch, gsub

// Val is a Lua value as far as replacements need them.
type Val struct {
	K byte // 'n' nil, 'f' false, 't' true, 's' string, 'i' integer, 'T' table (an invalid replacement)
	S string
	I int64
}

var Nil = Val{K: 'n'}

func Str(s string) Val { return Val{K: 's', S: s} }
func Int(i int64) Val  { return Val{K: 'i', I: i} }

// Enc is the canonical encoding used by gl.Namer for the same value.
func (v Val) Enc() string {
	switch v.K {
	case 'n':
		return "n"
	case 'f':
		return "b:false"
	case 't':
		return "b:true"
	case 's':
		return "s:" + strconv.Quote(v.S)
	case 'i':
		return "i:" + strconv.FormatInt(v.I, 10)
	}
	return "t#?"
}

// CapVal is the Lua value of capture c of a match on subject s.
func CapVal(s string, c Cap) Val {
	if c.Pos {
		return Int(int64(c.Start) + 1)
	}
	return Str(s[c.Start:c.End])
}

// Values returns what a successful match hands out as captures (the whole
// match when the pattern has none).  ok=false: an unfinished capture was
// touched (error).
func (r Result) Values(s string) (vs []Val, ok bool) {
	if len(r.Caps) == 0 {
		return []Val{Str(s[r.Start:r.End])}, true
	}
	for _, c := range r.Caps {
		if c.Unfinished {
			return nil, false
		}
		vs = append(vs, CapVal(s, c))
	}
	return vs, true
}

// Gmatch lists the successive matches string.gmatch(s, p, init) yields.  The
// pattern must not be anchored (the manual gives '^' no meaning there).
// A non-empty err means iteration number len(results)+1 raises an error.
func (p *Pattern) Gmatch(s string, init int, maxSteps int64) (out []Result, err string, st Status) {
	out, err, st, _ = p.GmatchSteps(s, init, maxSteps)
	return
}

// GmatchSteps is Gmatch that also reports the model's item visits.
func (p *Pattern) GmatchSteps(s string, init int, maxSteps int64) (out []Result, err string, st Status, steps int64) {
	m := NewMatcher(p, s)
	m.MaxSteps = maxSteps
	defer func() { steps = m.Steps }()
	src := init
	last := -1
	for src <= len(s) {
		r := m.At(src)
		switch r.St {
		case Error:
			return out, r.Err, Error, 0
		case TooLarge:
			return out, "", TooLarge, 0
		case Match:
			if r.End != last {
				if _, ok := r.Values(s); !ok {
					return out, "unfinished capture", Error, 0
				}
				out = append(out, r)
				src, last = r.End, r.End
				continue
			}
		}
		src++
	}
	return out, "", Match, 0
}

// Repl is a gsub replacement: exactly one of Str (with IsStr), Table, Func is
// used.  Func receives the capture values and returns the replacement value.
type Repl struct {
	IsStr bool
	Str   string
	Table func(key Val) Val
	Func  func(args []Val) Val
	// CountRejected makes Gsub count every rejected empty match (one that
	// ends where the previous, non-empty match ended) as a substitution.  This
	// is NOT Lua's behaviour; it exists only so that a monitor can recognise
	// that particular way of being wrong when it classifies a discrepancy.
	CountRejected bool
}

// GsubResult of the model.
type GsubResult struct {
	St     Status // Match = completed normally, Error, TooLarge
	Out    string
	N      int
	Err    string
	Unspec string // the replacement string uses '%' in a way the manual does not define
	// Rejected counts the empty matches that were not used because they end
	// where the previous match ended, split by whether that previous match
	// was empty.
	RejectedAfterNonEmpty int
	Steps                 int64 // item visits of the model
}

// Gsub is string.gsub(s, p, repl, maxN); maxN < 0 means "no limit given".
func (p *Pattern) Gsub(s string, repl Repl, maxN int, maxSteps int64) (g GsubResult) {
	m := NewMatcher(p, s)
	m.MaxSteps = maxSteps
	if maxN < 0 {
		maxN = len(s) + 1
		if repl.CountRejected {
			maxN = 2*len(s) + 2
		}
	}
	var out []byte
	src := 0
	last := -1
	lastNonEmpty := false
	defer func() { g.Steps = m.Steps }()
	for g.N < maxN {
		r := m.At(src)
		if r.St == Error {
			g.St, g.Err = Error, r.Err
			return
		}
		if r.St == TooLarge {
			g.St = TooLarge
			return
		}
		if r.St == Match && r.End != last {
			g.N++
			rep, errMsg, uns := p.replacement(s, r, repl)
			if uns != "" && g.Unspec == "" {
				g.Unspec = uns
			}
			if errMsg != "" {
				g.St, g.Err = Error, errMsg
				return
			}
			out = append(out, rep...)
			lastNonEmpty = r.End > r.Start
			src, last = r.End, r.End
		} else {
			if r.St == Match && lastNonEmpty {
				g.RejectedAfterNonEmpty++
				lastNonEmpty = false
				if repl.CountRejected {
					g.N++
				}
			}
			if src < len(s) {
				out = append(out, s[src])
				src++
			} else {
				break
			}
		}
		if p.Anchored {
			break
		}
	}
	if src < len(s) {
		out = append(out, s[src:]...)
	}
	g.St = Match
	g.Out = string(out)
	return
}

func (p *Pattern) replacement(s string, r Result, repl Repl) (rep string, errMsg string, unspec string) {
	whole := s[r.Start:r.End]
	if repl.IsStr {
		var b []byte
		rs := repl.Str
		for i := 0; i < len(rs); i++ {
			c := rs[i]
			if c != '%' {
				b = append(b, c)
				continue
			}
			i++
			if i >= len(rs) {
				// the reference raises "invalid use of '%' in replacement
				// string"; the manual does not say
				return "", "", "replacement string ends with '%'"
			}
			d := rs[i]
			switch {
			case d == '%':
				b = append(b, '%')
			case d == '0':
				b = append(b, whole...)
			case isDigit(d):
				l := int(d - '1')
				if l >= len(r.Caps) {
					if l != 0 || len(r.Caps) != 0 {
						return "", "invalid capture index %" + string(d) + " in replacement string", ""
					}
					b = append(b, whole...)
					break
				}
				c := r.Caps[l]
				if c.Unfinished {
					return "", "unfinished capture", ""
				}
				v := CapVal(s, c)
				if v.K == 'i' {
					b = strconv.AppendInt(b, v.I, 10)
				} else {
					b = append(b, v.S...)
				}
			default:
				return "", "", "'%' followed by something else than a digit or '%' in the replacement string"
			}
		}
		return string(b), "", ""
	}
	var v Val
	if repl.Table != nil {
		var key Val
		if len(r.Caps) == 0 {
			key = Str(whole)
		} else {
			if r.Caps[0].Unfinished {
				return "", "unfinished capture", ""
			}
			key = CapVal(s, r.Caps[0])
		}
		v = repl.Table(key)
	} else {
		args, ok := r.Values(s)
		if !ok {
			return "", "unfinished capture", ""
		}
		v = repl.Func(args)
	}
	switch v.K {
	case 'n', 'f':
		return whole, "", ""
	case 's':
		return v.S, "", ""
	case 'i':
		return strconv.FormatInt(v.I, 10), "", ""
	}
	return "", "invalid replacement value", ""
}
