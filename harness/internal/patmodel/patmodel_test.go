package patmodel

import (
	"strconv"
	"testing"
)

// Facts taken from the Lua 5.4 manual's own examples and from the documented
// behaviour of the reference implementation.
func TestFind(t *testing.T) {
	type tc struct {
		s, p string
		init int
		want string
	}
	enc := func(s string, r Result) string {
		switch r.St {
		case NoMatch:
			return "nil"
		case Error:
			return "error"
		}
		out := ""
		out += strconv.Itoa(r.Start+1) + "," + strconv.Itoa(r.End)
		for _, c := range r.Caps {
			v := CapVal(s, c)
			out += "," + v.Enc()
		}
		return out
	}
	for _, c := range []tc{
		{"hello", "l+", 0, "3,4"},
		{"hello", "^l+", 0, "nil"},
		{"hello", "^l+", 2, "3,4"},
		{"hello", "(h)(e)", 0, `1,2,s:"h",s:"e"`},
		{"hello", "()ll()", 0, "3,4,i:3,i:5"},
		{"abc", "", 0, "1,0"},
		{"abc", "", 3, "4,3"},
		{"abc", "", 4, "nil"},
		{"abc", "$", 0, "4,3"},
		{"abc", "b$", 0, "nil"},
		{"a$c", "a$c", 0, "1,3"},
		{"a^c", "a^c", 0, "1,3"},
		{"aaa", "a-", 0, "1,0"},
		{"aaa", "a-$", 0, "1,3"},
		{"aaab", "a*", 1, "2,3"},
		{"x(a(b)c)y", "%b()", 0, "2,8"},
		{"THE (quick) fox", "%f[%a]%a+", 0, "1,3"},
		{"THE (quick) fox", "%f[%l]%a+", 0, "6,10"},
		{"aXa", "(a).%1", 0, `1,3,s:"a"`},
		{"abab", "(ab)%1", 0, `1,4,s:"ab"`},
		{"abc", "[b-a]", 0, "nil"},
		{"a]c", "[]]", 0, "2,2"},
		{"a-c", "[a-]+", 0, "1,2"},
		{"abc", "a%", 0, "error"},
		{"xbc", "a%", 0, "nil"}, // error item not reached
		{"abc", "%1", 0, "error"},
		{"abc", "(a", 0, "error"},
		{"xbc", "(a", 0, "nil"},
		{"abc", "a)", 0, "error"},
		{"abc", "[a", 0, "error"},
		{"abc", "%f", 0, "error"},
		{"abc", "%ba", 0, "error"},
		{"*a", "*a", 0, "1,2"},
	} {
		p := Compile(c.p)
		m := NewMatcher(p, c.s)
		r := m.Find(c.init)
		if r.St == Match {
			for _, cp := range r.Caps {
				if cp.Unfinished {
					r = Result{St: Error}
				}
			}
		}
		if got := enc(c.s, r); got != c.want {
			t.Errorf("find(%q, %q, %d) = %s, want %s", c.s, c.p, c.init+1, got, c.want)
		}
	}
}

func TestGsub(t *testing.T) {
	type tc struct {
		s, p, r string
		n       int
		out     string
		cnt     int
	}
	for _, c := range []tc{
		{"hello world", "(%w+)", "%1 %1", -1, "hello hello world world", 2},
		{"hello world", "%w+", "%0 %0", 1, "hello hello world", 1},
		{"hello world from Lua", "(%w+)%s*(%w+)", "%2 %1", -1, "world hello Lua from", 2},
		{"abc", "b*", "Z", -1, "ZaZcZ", 3},
		{"abc", "%w*", "x", -1, "x", 1},
		{"abc", "", "-", -1, "-a-b-c-", 4},
		{"aaa", "^a", "x", -1, "xaa", 1},
		{"a b cd", " *", "-", -1, "-a-b-c-d-", 5},
		{"abc", "%w", "%%%0", -1, "%a%b%c", 3},
		{"xyz", "()y()", "%1-%2", -1, "x2-3z", 1},
		{"abc", "b", "x", 0, "abc", 0},
	} {
		g := Compile(c.p).Gsub(c.s, Repl{IsStr: true, Str: c.r}, c.n, 1<<40)
		if g.St != Match || g.Out != c.out || g.N != c.cnt {
			t.Errorf("gsub(%q,%q,%q,%d) = %q,%d (st %d err %s), want %q,%d", c.s, c.p, c.r, c.n, g.Out, g.N, g.St, g.Err, c.out, c.cnt)
		}
	}
	if g := Compile("(x)").Gsub("xyz", Repl{IsStr: true, Str: "%2"}, -1, 1<<40); g.St != Error {
		t.Errorf("%%2 with one capture must be an error")
	}
}

func TestGmatch(t *testing.T) {
	ms, _, _ := Compile("b*").Gmatch("abc", 0, 1<<40)
	var got []string
	for _, r := range ms {
		got = append(got, "abc"[r.Start:r.End])
	}
	if len(got) != 3 || got[0] != "" || got[1] != "b" || got[2] != "" {
		t.Errorf("gmatch('abc','b*') = %q", got)
	}
	ms, _, _ = Compile("%a+").Gmatch("hello world from Lua", 7, 1<<40)
	if len(ms) != 3 || ms[0].Start != 7 {
		t.Errorf("gmatch with init: %v", ms)
	}
}

func TestClassify(t *testing.T) {
	for p, want := range map[string]string{
		"a":      "wf",
		"%q":     "unspec",
		"[b-a]":  "unspec",
		"%bxx":   "unspec",
		"*a":     "lenient",
		"a]":     "lenient",
		"()%1":   "lenient",
		"(a":     "malformed",
		"%":      "malformed",
		"[a-]":   "wf",
		"[%a-z]": "unspec",
		"[a-%%]": "unspec",
		"%f[a]":  "wf",
		"%fa":    "malformed",
	} {
		c := Compile(p)
		got := "wf"
		switch {
		case c.Malformed != "":
			got = "malformed"
		case c.Unspec != "":
			got = "unspec"
		case c.Lenient != "":
			got = "lenient"
		}
		if got != want {
			t.Errorf("classify(%q) = %s (%s%s%s), want %s", p, got, c.Malformed, c.Unspec, c.Lenient, want)
		}
	}
}
