// Package gl is the glue between the monitors and golua: it creates runtimes
// with the standard library and the trace callbacks, runs chunks with a
// recover() wrapper and encodes values in a canonical, address-free way.
package gl

import (
	"bytes"
	"fmt"
	"math"
	"runtime/debug"
	"strconv"
	"strings"

	"github.com/arnodel/golua/lib"
	rt "github.com/arnodel/golua/runtime"
)

// Namer gives reference values (tables, functions, threads, userdata) an
// ordinal by first appearance so that traces do not depend on addresses.
type Namer struct {
	ids map[interface{}]int
}

func NewNamer() *Namer { return &Namer{ids: map[interface{}]int{}} }

func (n *Namer) id(kind string, key interface{}) string {
	i, ok := n.ids[key]
	if !ok {
		i = len(n.ids) + 1
		n.ids[key] = i
	}
	return kind + "#" + strconv.Itoa(i)
}

// Enc encodes a value: n | b:true | i:<dec> | f:<hex bits> | s:<quoted> | t#k | fn#k | th#k | u#k
func (n *Namer) Enc(v rt.Value) string {
	if v.IsNil() {
		return "n"
	}
	switch v.Type() {
	case rt.BoolType:
		if v.AsBool() {
			return "b:true"
		}
		return "b:false"
	case rt.IntType:
		return "i:" + strconv.FormatInt(v.AsInt(), 10)
	case rt.FloatType:
		f := v.AsFloat()
		if f != f {
			return "f:nan"
		}
		return "f:" + strconv.FormatUint(math.Float64bits(f), 16)
	case rt.StringType:
		return "s:" + strconv.Quote(v.AsString())
	case rt.TableType:
		return n.id("t", v.AsTable())
	case rt.FunctionType:
		c, _ := v.TryCallable()
		if cl, ok := c.(*rt.Closure); ok {
			// closures compare by code+upvalues in golua; name by pointer
			return n.id("fn", cl)
		}
		return n.id("fn", c)
	case rt.ThreadType:
		return n.id("th", v.AsThread())
	case rt.UserDataType:
		return n.id("u", v.AsUserData())
	}
	return "?" + v.TypeName()
}

// EncSlice encodes each value separately.
func (n *Namer) EncSlice(vs []rt.Value) []string {
	parts := make([]string, len(vs))
	for i, v := range vs {
		parts[i] = n.Enc(v)
	}
	return parts
}

func (n *Namer) EncList(vs []rt.Value) string {
	parts := make([]string, len(vs))
	for i, v := range vs {
		parts[i] = n.Enc(v)
	}
	return strings.Join(parts, ",")
}

// Outcome kinds.
const (
	OK           = "ok"
	CompileError = "compile-error"
	LuaError     = "error"
	Killed       = "killed"
	Panic        = "panic"
)

type Outcome struct {
	Kind             string
	Trace            []string // events emitted through the host callback
	TraceV           [][]string // the same, each value encoded separately
	RetsV            []string
	Rets             string   // encoded return values
	ErrVal           string   // encoded error value (LuaError) or message
	ErrMsg           string   // err.Error()
	PanicMsg         string
	Stack            string
	Reports          []string // hook reports received during the run (verif tag)
	Stdout           string
	CtxStatus        string
	UsedCPU, UsedMem uint64
}

func (o *Outcome) String() string {
	var b strings.Builder
	fmt.Fprintf(&b, "kind=%s rets=[%s]", o.Kind, o.Rets)
	if o.ErrVal != "" {
		fmt.Fprintf(&b, " err=%s", o.ErrVal)
	}
	if o.PanicMsg != "" {
		fmt.Fprintf(&b, " panic=%s", o.PanicMsg)
	}
	fmt.Fprintf(&b, " trace(%d)=%s", len(o.Trace), strings.Join(o.Trace, " | "))
	return b.String()
}

// Sess is a runtime plus its trace.
type Sess struct {
	R        *rt.Runtime
	N        *Namer
	Trace    []string
	TraceV   [][]string
	Out      bytes.Buffer
	cleanup  func()
	MaxTrace int
	BareCall bool // Call uses rt.Call directly instead of Thread.CallContext
	// OnEmit, if set, is called (on the goroutine running the interpreter)
	// every time the program calls emit, after the event was recorded.
	OnEmit func()
}

// Options for a session.
type Options struct {
	NoLibs bool
	Ctx    *rt.RuntimeContextDef // runtime created inside this context (WithRuntimeContext)
}

func NewSess(o Options) *Sess {
	s := &Sess{N: NewNamer(), MaxTrace: 100000}
	var opts []rt.RuntimeOption
	if o.Ctx != nil {
		opts = append(opts, rt.WithRuntimeContext(*o.Ctx))
	}
	s.R = rt.New(&s.Out, opts...)
	if !o.NoLibs {
		s.cleanup = lib.LoadAll(s.R)
	}
	s.R.SetEnvGoFunc(s.R.GlobalEnv(), "emit", func(t *rt.Thread, c *rt.GoCont) (rt.Cont, error) {
		if len(s.Trace) < s.MaxTrace {
			s.Trace = append(s.Trace, s.N.EncList(c.Etc()))
			s.TraceV = append(s.TraceV, s.N.EncSlice(c.Etc()))
		}
		if s.OnEmit != nil {
			s.OnEmit()
		}
		return c.Next(), nil
	}, 0, true).SolemnlyDeclareCompliance(rt.ComplyCpuSafe | rt.ComplyMemSafe | rt.ComplyTimeSafe | rt.ComplyIoSafe)
	return s
}

func (s *Sess) Close() {
	if s.cleanup != nil {
		s.cleanup()
		s.cleanup = nil
	}
	s.R.Close(nil)
}

// SetGlobal sets a global variable.
func (s *Sess) SetGlobal(name string, v rt.Value) {
	s.R.SetEnv(s.R.GlobalEnv(), name, v)
}

// Compile compiles a chunk with a recover wrapper.
func (s *Sess) Compile(name, src string) (clos *rt.Closure, out *Outcome) {
	defer func() {
		if r := recover(); r != nil {
			out = &Outcome{Kind: Panic, PanicMsg: fmt.Sprint(r), Stack: string(debug.Stack())}
			clos = nil
		}
	}()
	c, err := s.R.CompileAndLoadLuaChunk(name, []byte(src), rt.TableValue(s.R.GlobalEnv()))
	if err != nil {
		return nil, &Outcome{Kind: CompileError, ErrMsg: err.Error()}
	}
	return c, nil
}

// Call calls f with args on the main thread with a recover wrapper.
func (s *Sess) Call(f rt.Value, args []rt.Value) (out *Outcome) {
	out = &Outcome{}
	ResetReports()
	defer func() {
		if r := recover(); r != nil {
			if _, ok := r.(rt.ContextTerminationError); ok {
				out.Kind = Killed
				out.ErrMsg = fmt.Sprint(r)
			} else {
				out.Kind = Panic
				out.PanicMsg = fmt.Sprint(r)
				out.Stack = string(debug.Stack())
			}
		}
		out.Trace = s.Trace
		out.TraceV = s.TraceV
		out.Reports = TakeReports()
		out.Stdout = s.Out.String()
	}()
	term := rt.NewTerminationWith(nil, 0, true)
	// The embedding caller uses the protected entry point (Thread.CallContext,
	// which is also what pcall is made of): it finalises pending to-be-closed
	// variables of the main thread when the call ends with an error. A bare
	// rt.Call is the unprotected primitive and leaves them pending.
	t := s.R.MainThread()
	var err error
	if s.BareCall {
		err = rt.Call(t, f, args, term)
	} else {
		var ctx rt.RuntimeContext
		ctx, err = t.CallContext(rt.RuntimeContextDef{}, func() error { return rt.Call(t, f, args, term) })
		if ctx != nil && ctx.Status() == rt.StatusKilled {
			out.Kind = Killed
			if err != nil {
				out.ErrMsg = err.Error()
			}
			return
		}
	}
	if err != nil {
		out.Kind = LuaError
		out.ErrMsg = err.Error()
		out.ErrVal = s.N.Enc(rt.ErrorValue(err))
		return
	}
	out.Kind = OK
	out.Rets = s.N.EncList(term.Etc())
	out.RetsV = s.N.EncSlice(term.Etc())
	return
}

// CallInContext calls f inside a fresh context (Runtime.CallContext) and
// reports the context's final status and usage.
func (s *Sess) CallInContext(def rt.RuntimeContextDef, f rt.Value, args []rt.Value) (out *Outcome) {
	out = &Outcome{}
	ResetReports()
	defer func() {
		if r := recover(); r != nil {
			out.Kind = Panic
			out.PanicMsg = fmt.Sprint(r)
			out.Stack = string(debug.Stack())
		}
		out.Trace = s.Trace
		out.TraceV = s.TraceV
		out.Reports = TakeReports()
		out.Stdout = s.Out.String()
	}()
	term := rt.NewTerminationWith(nil, 0, true)
	t := s.R.MainThread()
	ctx, err := t.CallContext(def, func() error {
		return rt.Call(t, f, args, term)
	})
	if ctx != nil {
		out.CtxStatus = ctx.Status().String()
		u := ctx.UsedResources()
		out.UsedCPU, out.UsedMem = u.Cpu, u.Memory
	}
	switch {
	case ctx != nil && ctx.Status() == rt.StatusKilled:
		out.Kind = Killed
		if err != nil {
			out.ErrMsg = err.Error()
		}
	case err != nil:
		out.Kind = LuaError
		out.ErrMsg = err.Error()
		out.ErrVal = s.N.Enc(rt.ErrorValue(err))
	default:
		out.Kind = OK
		out.Rets = s.N.EncList(term.Etc())
		out.RetsV = s.N.EncSlice(term.Etc())
	out.RetsV = s.N.EncSlice(term.Etc())
	}
	return
}

// Run compiles and runs src in a fresh session with the given arguments.
func Run(name, src string, args []rt.Value) *Outcome {
	s := NewSess(Options{})
	defer s.Close()
	clos, out := s.Compile(name, src)
	if out != nil {
		return out
	}
	return s.Call(rt.FunctionValue(clos), args)
}
