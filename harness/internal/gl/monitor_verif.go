//go:build verif

package gl

import (
	"os"
	"runtime"
	"strings"
	"sync"
	"time"

	rt "github.com/arnodel/golua/runtime"
)

var (
	repMu   sync.Mutex
	reports []string
	// GoroutineEvents records start/exit of coroutine goroutines by thread id.
	goroutineStarts = map[uintptr]int{}
	goroutineExits  = map[uintptr]int{}
	// live coroutine goroutines (started, not yet exited) by thread
	liveThreads = map[*rt.Thread]bool{}
	totalStarts int64
	totalExits  int64
	pointCounts     = map[string]int64{}
	notLive         int64
)

const HooksEnabled = true

func init() {
	rt.VerifMonitor.Report = func(kind, detail string) {
		repMu.Lock()
		if len(reports) < 100 {
			reports = append(reports, kind+": "+detail)
		}
		if kind == "notlive" {
			notLive++
		}
		n := notLive
		repMu.Unlock()
		// Lua code that keeps running in a context that is no longer live is not
		// metered any more and may never stop: abort the run (the panic is
		// caught by the session's recover wrapper, or ends the child, whose
		// journal names the case).
		if n > 100000 {
			panic("verif monitor: Lua code keeps running in an execution context that is no longer live (" + detail + ")")
		}
	}
	rt.VerifMonitor.Goroutine = func(ev string, t *rt.Thread) {
		id := rt.VerifThreadID(t)
		repMu.Lock()
		if ev == "start" {
			goroutineStarts[id]++
			liveThreads[t] = true
			totalStarts++
		} else {
			goroutineExits[id]++
			delete(liveThreads, t)
			totalExits++
		}
		repMu.Unlock()
	}
	// VERIF_DELAY=point=action,point=action ; action: yield | sleep:<dur> ; point "*" = all points
	spec := os.Getenv("VERIF_DELAY")
	actions := map[string]func(){}
	var all func()
	for _, part := range strings.Split(spec, ",") {
		kv := strings.SplitN(strings.TrimSpace(part), "=", 2)
		if len(kv) != 2 {
			continue
		}
		var act func()
		switch {
		case kv[1] == "yield":
			act = func() { runtime.Gosched() }
		case strings.HasPrefix(kv[1], "sleep:"):
			d, err := time.ParseDuration(strings.TrimPrefix(kv[1], "sleep:"))
			if err != nil {
				continue
			}
			act = func() { time.Sleep(d) }
		}
		if kv[0] == "*" {
			all = act
		} else {
			actions[kv[0]] = act
		}
	}
	rt.VerifMonitor.Point = func(point string) {
		repMu.Lock()
		pointCounts[point]++
		repMu.Unlock()
		if a := actions[point]; a != nil {
			a()
		} else if all != nil {
			all()
		}
	}
}

func ResetReports() {
	repMu.Lock()
	notLive = 0
	reports = nil
	repMu.Unlock()
}

func TakeReports() []string {
	repMu.Lock()
	r := reports
	reports = nil
	repMu.Unlock()
	return r
}

// GoroutineBalance returns starts and exits seen for the thread.
func GoroutineBalance(t *rt.Thread) (starts, exits int) {
	id := rt.VerifThreadID(t)
	repMu.Lock()
	defer repMu.Unlock()
	return goroutineStarts[id], goroutineExits[id]
}

func PointCounts() map[string]int64 {
	repMu.Lock()
	defer repMu.Unlock()
	m := map[string]int64{}
	for k, v := range pointCounts {
		m[k] = v
	}
	return m
}

// OpCounts returns the VM step histogram.
func OpCounts() map[string]uint64 {
	names := map[int]string{0: "type0-receive", 2: "type7-for", 3: "type6-etclookup", 4: "type5-jump/call/clstack", 5: "type4-unop/const", 6: "type3-loadk", 7: "type2-index", 8: "gofunction"}
	binops := []string{"add", "sub", "mul", "div", "idiv", "mod", "pow", "band", "bor", "bxor", "shl", "shr", "eq", "lt", "le", "concat"}
	m := map[string]uint64{}
	for i, n := range rt.VerifOpCount {
		if n == 0 {
			continue
		}
		if i >= 16 {
			m["binop-"+binops[i-16]] = n
		} else if nm, ok := names[i]; ok {
			m[nm] = n
		} else {
			m["op-"+string(rune('0'+i))] = n
		}
	}
	return m
}

// DeadThreadsWithGoroutine returns how many coroutines are dead (finished,
// failed or closed) while their goroutine has not exited, after giving the
// goroutines up to the given number of scheduler yields (1 ms sleeps) to get
// there; suspended coroutines legitimately keep their goroutine.  It also
// returns the numbers of goroutine starts and exits seen so far.
func DeadThreadsWithGoroutine(maxPolls int) (leaked int, starts, exits int64) {
	for i := 0; ; i++ {
		repMu.Lock()
		leaked = 0
		for t := range liveThreads {
			if t.Status() == rt.ThreadDead {
				leaked++
			}
		}
		starts, exits = totalStarts, totalExits
		repMu.Unlock()
		if leaked == 0 || i >= maxPolls {
			return
		}
		runtime.Gosched()
		time.Sleep(time.Millisecond)
	}
}

// ForgetThreads drops the bookkeeping of coroutine goroutines (between cases:
// suspended coroutines of a finished case stay blocked for ever by design).
func ForgetThreads() {
	repMu.Lock()
	liveThreads = map[*rt.Thread]bool{}
	goroutineStarts = map[uintptr]int{}
	goroutineExits = map[uintptr]int{}
	repMu.Unlock()
}
