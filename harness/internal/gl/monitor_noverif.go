//go:build !verif

package gl

import rt "github.com/arnodel/golua/runtime"

const HooksEnabled = false

func ResetReports()                            {}
func TakeReports() []string                    { return nil }
func GoroutineBalance(t *rt.Thread) (int, int) { return 0, 0 }
func PointCounts() map[string]int64            { return nil }
func OpCounts() map[string]uint64              { return nil }

func DeadThreadsWithGoroutine(maxPolls int) (int, int64, int64) { return 0, 0, 0 }
func ForgetThreads()                                           {}
