package packmodel

import "fmt"

// Hand-written model of the ISO C fprintf conversions that string.format
// passes through for integers and strings (C99 7.19.6.1; Lua manual §6.4
// string.format: "follows the same rules as the ISO C function sprintf").
// It does not use Go's fmt for the formatting itself.

// Spec is one conversion specification %[flags][width][.prec]conv.
type Spec struct {
	Minus, Plus, Space, Sharp, Zero bool
	Width                           int // -1: none
	Prec                            int // -1: none
	Conv                            byte
}

// String renders the directive.  Flags are written in a fixed order.
func (s Spec) String() string {
	b := []byte{'%'}
	if s.Minus {
		b = append(b, '-')
	}
	if s.Plus {
		b = append(b, '+')
	}
	if s.Space {
		b = append(b, ' ')
	}
	if s.Sharp {
		b = append(b, '#')
	}
	if s.Zero {
		b = append(b, '0')
	}
	if s.Width >= 0 {
		b = append(b, []byte(fmt.Sprint(s.Width))...)
	}
	if s.Prec >= 0 {
		b = append(b, '.')
		b = append(b, []byte(fmt.Sprint(s.Prec))...)
	}
	return string(append(b, s.Conv))
}

// Defined tells whether ISO C defines the behaviour of this flag combination
// (otherwise the result is undefined and the model gives no verdict).
func (s Spec) Defined() (bool, string) {
	switch s.Conv {
	case 'd', 'i':
		if s.Sharp {
			return false, "'#' with d/i is undefined"
		}
	case 'u':
		if s.Sharp {
			return false, "'#' with u is undefined"
		}
		if s.Plus || s.Space {
			return false, "'+'/' ' apply to signed conversions only"
		}
	case 'o', 'x', 'X':
		if s.Plus || s.Space {
			return false, "'+'/' ' apply to signed conversions only"
		}
	case 'c':
		if s.Sharp || s.Zero || s.Plus || s.Space || s.Prec >= 0 {
			return false, "only '-' and a width are defined for c"
		}
	case 's':
		if s.Sharp || s.Zero || s.Plus || s.Space {
			return false, "only '-', width and precision are defined for s"
		}
	default:
		return false, "conversion not modelled"
	}
	if s.Width > 99 || s.Prec > 99 {
		return false, "Lua limits width and precision to two digits"
	}
	return true, ""
}

func digitsOf(u uint64, base uint64, upper bool) []byte {
	const lo = "0123456789abcdef"
	const up = "0123456789ABCDEF"
	if u == 0 {
		return []byte{'0'}
	}
	var tmp [64]byte
	i := len(tmp)
	for u > 0 {
		i--
		if upper {
			tmp[i] = up[u%base]
		} else {
			tmp[i] = lo[u%base]
		}
		u /= base
	}
	return append([]byte(nil), tmp[i:]...)
}

func rep(c byte, n int) []byte {
	if n <= 0 {
		return nil
	}
	b := make([]byte, n)
	for i := range b {
		b[i] = c
	}
	return b
}

// FormatInt formats the integer conversions d i u o x X.
func (s Spec) FormatInt(v int64) []byte {
	var sign, prefix, digits []byte
	switch s.Conv {
	case 'd', 'i':
		var u uint64
		if v < 0 {
			sign = []byte{'-'}
			u = uint64(-(v + 1)) + 1 // |v| without overflow for minint
		} else {
			u = uint64(v)
			if s.Plus {
				sign = []byte{'+'}
			} else if s.Space {
				sign = []byte{' '}
			}
		}
		digits = digitsOf(u, 10, false)
	case 'u':
		digits = digitsOf(uint64(v), 10, false)
	case 'o':
		digits = digitsOf(uint64(v), 8, false)
	case 'x':
		digits = digitsOf(uint64(v), 16, false)
	case 'X':
		digits = digitsOf(uint64(v), 16, true)
	}
	// precision: minimum number of digits; value 0 with precision 0: no digits
	prec := s.Prec
	if prec == 0 && v == 0 {
		digits = nil
	}
	if prec > len(digits) {
		digits = append(rep('0', prec-len(digits)), digits...)
	}
	if s.Sharp {
		switch s.Conv {
		case 'o':
			// increase the precision so that the first digit is a zero
			if len(digits) == 0 || digits[0] != '0' {
				digits = append([]byte{'0'}, digits...)
			}
		case 'x':
			if v != 0 {
				prefix = []byte("0x")
			}
		case 'X':
			if v != 0 {
				prefix = []byte("0X")
			}
		}
	}
	body := len(sign) + len(prefix) + len(digits)
	var out []byte
	switch {
	case s.Minus:
		out = append(out, sign...)
		out = append(out, prefix...)
		out = append(out, digits...)
		out = append(out, rep(' ', s.Width-body)...)
	case s.Zero && s.Prec < 0:
		// leading zeros after sign and base prefix
		out = append(out, sign...)
		out = append(out, prefix...)
		out = append(out, rep('0', s.Width-body)...)
		out = append(out, digits...)
	default:
		out = append(out, rep(' ', s.Width-body)...)
		out = append(out, sign...)
		out = append(out, prefix...)
		out = append(out, digits...)
	}
	return out
}

// FormatChar formats %c.
func (s Spec) FormatChar(v int64) []byte {
	return s.padStr([]byte{byte(v)})
}

// FormatStr formats %s: precision = maximum number of bytes written.
func (s Spec) FormatStr(str string) []byte {
	b := []byte(str)
	if s.Prec >= 0 && s.Prec < len(b) {
		b = b[:s.Prec]
	}
	return s.padStr(b)
}

func (s Spec) padStr(b []byte) []byte {
	if s.Minus {
		return append(append([]byte(nil), b...), rep(' ', s.Width-len(b))...)
	}
	return append(rep(' ', s.Width-len(b)), b...)
}
