package packmodel

import (
	"math"
	"testing"
)

var nat = Native{Short: 2, Int: 4, Long: 8, SizeT: 8, Float: 4, Double: 8, MaxAlign: 8, Little: true}

// Known answers of the reference implementation (lua 5.4, x86-64) that are
// fixed by the manual.
func TestPackVectors(t *testing.T) {
	cases := []struct {
		f    string
		vals []V
		want string
	}{
		{"<i4", []V{IntV(1)}, "\x01\x00\x00\x00"},
		{">i4", []V{IntV(1)}, "\x00\x00\x00\x01"},
		{"!2bh", []V{IntV(10), IntV(20)}, "\x0a\x00\x14\x00"},
		{"<i6", []V{IntV(123456789)}, "\x15\xcd\x5b\x07\x00\x00"},
		{">i10", []V{IntV(9876543210)}, "\x00\x00\x00\x00\x00\x02\x4c\xb0\x16\xea"},
		{"i9", []V{IntV(-1)}, "\xff\xff\xff\xff\xff\xff\xff\xff\xff"},
		{"<I16", []V{IntV(-1)}, "\xff\xff\xff\xff\xff\xff\xff\xff\x00\x00\x00\x00\x00\x00\x00\x00"},
		{"x!4Xjz", []V{StrV("A")}, "\x00\x00\x00\x00A\x00"},
		{"Hc4", []V{IntV(65535), StrV("AB")}, "\xff\xffAB\x00\x00"},
		{"<d", []V{FloatV(123.456)}, "\x77\xbe\x9f\x1a\x2f\xdd\x5e\x40"},
		{"<!4zs4", []V{StrV("A"), StrV("BCD")}, "A\x00\x00\x00\x03\x00\x00\x00BCD"},
		{"<J", []V{IntV(-1)}, "\xff\xff\xff\xff\xff\xff\xff\xff"},
		{">s2", []V{StrV("hi")}, "\x00\x02hi"},
		{"<!8bXi8", []V{IntV(1)}, "\x01\x00\x00\x00\x00\x00\x00\x00"},
	}
	for _, c := range cases {
		F, st := Parse(c.f, nat)
		if st != OK {
			t.Fatalf("%q: parse %v %s", c.f, st, F.Why)
		}
		P, pst, why := F.Pack(c.vals)
		if pst != OK || string(P.Bytes) != c.want {
			t.Errorf("%q: got %q (%v %s), want %q", c.f, string(P.Bytes), pst, why, c.want)
			continue
		}
		vs, next, ust, why := F.Unpack(P.Bytes, 0)
		if ust != OK || next != len(P.Bytes) || len(vs) != len(P.Back) {
			t.Errorf("%q: unpack %v %s next=%d", c.f, ust, why, next)
		}
	}
}

func TestParseStatus(t *testing.T) {
	for f, want := range map[string]Status{
		"": OK, "i17": Err, "i0": Err, "!17": Err, "c": Err, "y": Err, "b3": Err, "X": Err, "iX": Err, "!3i4": Err, "!3i2": OK,
		"Xz": Skip, "Xc3": Skip, "X<i": Skip, "X i": Skip, "XX": Skip, "Xi3": OK, "!4Xi3": Err, "s0": Err, "s16": OK, "c0": OK, "i16": OK,
	} {
		if F, st := Parse(f, nat); st != want {
			t.Errorf("Parse(%q) = %v (%s), want %v", f, st, F.Why, want)
		}
	}
	for f, want := range map[string]int{"bb": 2, "!4Bf": 8, "!8hXi8": 8, "lx": 9, "!2i3": 3, "!2i16": 16, "!bXd": 8, "c10I4": 14} {
		F, st := Parse(f, nat)
		if n, sst := F.Size(); st != OK || sst != OK || n != want {
			t.Errorf("Size(%q) = %d %v %v, want %d", f, n, st, sst, want)
		}
	}
}

func TestPackErrors(t *testing.T) {
	bad := []struct {
		f string
		v V
	}{{"b", IntV(128)}, {"B", IntV(-1)}, {"i1", IntV(300)}, {"I7", IntV(-1)}, {"i3", IntV(1 << 23)}, {"c2", StrV("abc")}, {"c0", StrV("a")},
		{"z", StrV("a\x00b")}, {"s1", StrV(string(make([]byte, 256)))}}
	for _, c := range bad {
		F, _ := Parse(c.f, nat)
		if _, st, _ := F.Pack([]V{c.v}); st != Err {
			t.Errorf("pack(%q, %v) = %v, want error", c.f, c.v, st)
		}
	}
	good := []struct {
		f string
		v V
	}{{"b", IntV(-128)}, {"B", IntV(255)}, {"I8", IntV(-1)}, {"J", IntV(math.MinInt64)}, {"i3", IntV(-(1 << 23))}, {"I16", IntV(-5)}, {"c0", StrV("")}, {"s1", StrV(string(make([]byte, 255)))}}
	for _, c := range good {
		F, _ := Parse(c.f, nat)
		if _, st, why := F.Pack([]V{c.v}); st != OK {
			t.Errorf("pack(%q, %v) = %v %s, want ok", c.f, c.v, st, why)
		}
	}
	// unpack: improper extension, truncation, announced length
	F, _ := Parse("<i10", nat)
	if _, _, st, _ := F.Unpack([]byte("\xff\xff\xff\xff\xff\xff\xff\xff\x00\x00"), 0); st != Err {
		t.Errorf("i10 with a zero extension of a negative low part must not fit")
	}
	if vs, _, st, _ := F.Unpack([]byte("\xff\xff\xff\xff\xff\xff\xff\xff\xff\xff"), 0); st != OK || vs[0].I != -1 {
		t.Errorf("i10 of all ones is -1")
	}
	F, _ = Parse("<I10", nat)
	if vs, _, st, _ := F.Unpack([]byte("\xff\xff\xff\xff\xff\xff\xff\xff\x00\x00"), 0); st != OK || vs[0].I != -1 {
		t.Errorf("I10 2^64-1 reads as -1")
	}
	F, _ = Parse("s1", nat)
	if _, _, st, _ := F.Unpack([]byte("\x05ab"), 0); st != Err {
		t.Errorf("announced length beyond the data")
	}
}

// Known answers of C printf (glibc).
func TestPrintf(t *testing.T) {
	sp := func(flags string, w, p int, conv byte) Spec {
		s := Spec{Width: w, Prec: p, Conv: conv}
		for _, c := range flags {
			switch c {
			case '-':
				s.Minus = true
			case '+':
				s.Plus = true
			case ' ':
				s.Space = true
			case '#':
				s.Sharp = true
			case '0':
				s.Zero = true
			}
		}
		return s
	}
	ints := []struct {
		s    Spec
		v    int64
		want string
	}{
		{sp("", 5, 3, 'd'), 7, "  007"}, {sp("-", 5, -1, 'd'), 10, "10   "}, {sp("+", -1, -1, 'd'), 10, "+10"}, {sp("0", 5, -1, 'd'), -42, "-0042"},
		{sp("0", 5, 2, 'd'), 7, "   07"}, {sp("-0", 5, -1, 'd'), 7, "7    "}, {sp(" ", -1, -1, 'd'), 7, " 7"}, {sp("+ ", -1, -1, 'd'), 7, "+7"},
		{sp("", -1, 0, 'd'), 0, ""}, {sp("+", -1, 0, 'd'), 0, "+"}, {sp("", 3, 0, 'd'), 0, "   "},
		{sp("#", -1, -1, 'o'), 8, "010"}, {sp("#", -1, -1, 'o'), 0, "0"}, {sp("#", -1, 0, 'o'), 0, "0"}, {sp("", -1, -1, 'o'), -1, "1777777777777777777777"},
		{sp("#", -1, -1, 'x'), 255, "0xff"}, {sp("#", -1, -1, 'x'), 0, "0"}, {sp("#0", 8, -1, 'x'), 255, "0x0000ff"}, {sp("#", 8, -1, 'X'), 255, "    0XFF"},
		{sp("#", -1, 5, 'x'), 255, "0x000ff"}, {sp("", -1, -1, 'x'), -1, "ffffffffffffffff"}, {sp("", -1, -1, 'u'), -1, "18446744073709551615"},
		{sp("", -1, -1, 'd'), math.MinInt64, "-9223372036854775808"}, {sp("-#", 6, -1, 'x'), 1, "0x1   "},
	}
	for _, c := range ints {
		if got := string(c.s.FormatInt(c.v)); got != c.want {
			t.Errorf("%s of %d = %q, want %q", c.s, c.v, got, c.want)
		}
	}
	if got := string(sp("", 5, 2, 's').FormatStr("hello")); got != "   he" {
		t.Errorf("%%5.2s = %q", got)
	}
	if got := string(sp("-", 4, -1, 'c').FormatChar(65)); got != "A   " {
		t.Errorf("%%-4c = %q", got)
	}
}

func TestDecodeQ(t *testing.T) {
	for lit, want := range map[string]string{
		`"a\0001"`: "a\x001", `"\01"`: "\x01", `"\x41\65\u{48}"`: "AAH", "\"a\\\nb\"": "a\nb", `"\z   x"`: "x", `"\\\""`: `\"`, `"\u{7FFFFFFF}"`: "\xfd\xbf\xbf\xbf\xbf\xbf",
	} {
		if d := DecodeQ(lit); d.Kind != QString || d.S != want {
			t.Errorf("DecodeQ(%s) = %v %q %s, want %q", lit, d.Kind, d.S, d.Why, want)
		}
	}
	for _, lit := range []string{`"\u0080"`, `"\U0010ffff"`, `"\xg0"`, `"\256"`, "\"a\nb\"", `"abc`, `"\q"`} {
		if d := DecodeQ(lit); d.Kind != QInvalid {
			t.Errorf("DecodeQ(%s) = %v, want invalid", lit, d.Kind)
		}
	}
	if d := DecodeQ("0x8000000000000000"); d.Kind != QNumber || d.N.Enc() != "i:-9223372036854775808" {
		t.Errorf("minint: %v %s", d.Kind, d.N.Enc())
	}
	if d := DecodeQ("-9223372036854775808"); d.Kind != QNumber || d.N.Enc()[:2] != "f:" {
		t.Errorf("-2^63 decimal is a float: %v %s", d.Kind, d.N.Enc())
	}
	if d := DecodeQ("-0.0"); d.Kind != QNumber || d.N.Enc() != "f:8000000000000000" {
		t.Errorf("-0.0: %v %s", d.Kind, d.N.Enc())
	}
	if d := DecodeQ("0x1.8p+01"); d.Kind != QNumber || d.N.Enc() != "f:4008000000000000" {
		t.Errorf("hex float: %v %s", d.Kind, d.N.Enc())
	}
}
