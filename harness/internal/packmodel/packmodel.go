// Package packmodel is an executable model of the binary layout used by
// string.pack / string.unpack / string.packsize, written from the Lua 5.4
// reference manual §6.4.2.  It uses no golua code.
//
// What the manual fixes and the model therefore asserts: the option letters,
// explicit sizes (i[n] I[n] s[n] with n in 1..16, b B = 1 byte, x = 1 byte, c n),
// two's complement encoding in the chosen endianness, sign / zero extension of
// integers wider than a Lua integer, overflow checks when packing ("checks
// whether the given value fits in the given size") and when unpacking ("checks
// whether the read value fits in a Lua integer"), unsigned options treating Lua
// integers as unsigned values, alignment = min(option size, max alignment)
// which must be a power of two, "c" and "z" not aligned, "s" aligned like its
// length prefix, padding filled with zeros and ignored by unpack, the format
// starting as if prefixed by "!1=".
//
// What the manual leaves to the implementation and the model takes as measured
// parameters (Native): the sizes behind h H i I l L T f d s (without a number),
// the native maximum alignment of a bare "!", the native endianness.  Lua
// integers are 64-bit and Lua floats are IEEE doubles in the implementation
// under test, so j J are 8 bytes and n is 8 bytes.
//
// Where the manual is silent the model answers Skip: X followed by something
// that has no alignment of its own (c, z, configuration options, space, X),
// finite floats outside the range of a 4-byte float, absurd sizes.
package packmodel

import (
	"encoding/binary"
	"fmt"
	"math"
)

// Status of a model answer.
type Status int

const (
	OK   Status = iota // the manual defines the result
	Err                // the manual defines an error
	Skip               // left open: no verdict
)

func (s Status) String() string { return [...]string{"ok", "error", "skip"}[s] }

// Native holds the implementation-defined choices, measured from packsize.
type Native struct {
	Short, Int, Long, SizeT int // h/H, i/I, l/L, T and s without a number
	Float, Double           int // f, d
	MaxAlign                int // bare '!'
	Little                  bool
}

// Kind of a directive.
type Kind int

const (
	KInt    Kind = iota // signed integer of Size bytes
	KUint               // unsigned integer of Size bytes
	KFloat              // float32 (Size 4) or float64 (Size 8)
	KFixed              // c n
	KZ                  // z
	KLenStr             // s[n]: Size is the size of the length prefix
	KPad                // x
	KAlign              // X op: Align is the alignment asked for
)

// Item is one directive that produces bytes (or alignment).
type Item struct {
	Kind   Kind
	Size   int  // bytes of the integer / float / prefix / fixed string
	Little bool // byte order in force
	Align  int  // alignment = min(size, maxalign) (1 = none); for c, z, x: 1
	Text   string
}

// HasValue tells whether the item consumes a pack argument / yields a result.
func (it Item) HasValue() bool { return it.Kind != KPad && it.Kind != KAlign }

// Format is a parsed format string.
type Format struct {
	Items []Item
	// Why explains an Err / Skip status; Code is its short category.
	Why  string
	Code string
}

func isPow2(n int) bool { return n > 0 && n&(n-1) == 0 }

// Parse reads a format string.  Err: the format is malformed by §6.4.2.
func Parse(f string, nat Native) (*Format, Status) {
	res := &Format{}
	little := nat.Little
	maxAlign := 1
	i := 0
	num := func() (int, bool, bool) { // value, present, absurd
		if i >= len(f) || f[i] < '0' || f[i] > '9' {
			return 0, false, false
		}
		n := 0
		absurd := false
		for i < len(f) && f[i] >= '0' && f[i] <= '9' {
			if n > 1<<24 {
				absurd = true
			} else {
				n = n*10 + int(f[i]-'0')
			}
			i++
		}
		return n, true, absurd
	}
	fail := func(st Status, code string, why string) (*Format, Status) {
		res.Why = why
		res.Code = code
		return res, st
	}
	// option reads one option at position i and returns an Item for it;
	// conf=true for configuration options / space (no item).
	type opt struct {
		it      Item
		conf    bool // < > = ! space
		isX     bool
		aligned bool // the option has an alignment of its own
	}
	var option func() (opt, Status, string)
	option = func() (opt, Status, string) {
		start := i
		c := f[i]
		i++
		limited := func(def int) (int, Status, string) {
			n, present, absurd := num()
			if !present {
				if def < 1 || def > 16 {
					return 0, Skip, "native-size|native size not measured"
				}
				return def, OK, ""
			}
			if absurd || n < 1 || n > 16 {
				return 0, Err, fmt.Sprintf("size-out-of-limits|size of option '%c' out of [1,16]", c)
			}
			return n, OK, ""
		}
		mk := func(k Kind, size int, aligned bool) (opt, Status, string) {
			return opt{it: Item{Kind: k, Size: size, Little: little, Text: f[start:i]}, aligned: aligned}, OK, ""
		}
		switch c {
		case '<':
			little = true
			return opt{conf: true}, OK, ""
		case '>':
			little = false
			return opt{conf: true}, OK, ""
		case '=':
			little = nat.Little
			return opt{conf: true}, OK, ""
		case ' ':
			return opt{conf: true}, OK, ""
		case '!':
			n, st, why := limited(nat.MaxAlign)
			if st != OK {
				return opt{}, st, why
			}
			maxAlign = n
			return opt{conf: true}, OK, ""
		case 'b':
			return mk(KInt, 1, true)
		case 'B':
			return mk(KUint, 1, true)
		case 'h':
			return mk(KInt, nat.Short, true)
		case 'H':
			return mk(KUint, nat.Short, true)
		case 'l':
			return mk(KInt, nat.Long, true)
		case 'L':
			return mk(KUint, nat.Long, true)
		case 'j':
			return mk(KInt, 8, true)
		case 'J':
			return mk(KUint, 8, true)
		case 'T':
			return mk(KUint, nat.SizeT, true)
		case 'i', 'I':
			n, st, why := limited(nat.Int)
			if st != OK {
				return opt{}, st, why
			}
			if c == 'i' {
				return mk(KInt, n, true)
			}
			return mk(KUint, n, true)
		case 'f':
			return mk(KFloat, nat.Float, true)
		case 'd':
			return mk(KFloat, nat.Double, true)
		case 'n':
			return mk(KFloat, 8, true)
		case 's':
			n, st, why := limited(nat.SizeT)
			if st != OK {
				return opt{}, st, why
			}
			return mk(KLenStr, n, true)
		case 'z':
			return mk(KZ, 0, false)
		case 'x':
			return mk(KPad, 1, true)
		case 'c':
			n, present, absurd := num()
			if !present {
				return opt{}, Err, "missing-size|missing size for option 'c'"
			}
			if absurd {
				return opt{}, Skip, "absurd-size|absurd size for option 'c'"
			}
			return mk(KFixed, n, false)
		case 'X':
			return opt{isX: true}, OK, ""
		}
		return opt{}, Err, fmt.Sprintf("invalid-option|invalid format option %q", string(c))
	}
	alignOf := func(size int) (int, Status, string) {
		a := size
		if a > maxAlign {
			a = maxAlign
		}
		if a < 1 {
			a = 1
		}
		if !isPow2(a) {
			return 0, Err, fmt.Sprintf("align-not-pow2|alignment min(%d,%d) is not a power of 2", size, maxAlign)
		}
		return a, OK, ""
	}
	split := func(cw string) (string, string) {
		for k := 0; k < len(cw); k++ {
			if cw[k] == '|' {
				return cw[:k], cw[k+1:]
			}
		}
		return "other", cw
	}
	failCW := func(st Status, cw string) (*Format, Status) {
		code, why := split(cw)
		return fail(st, code, why)
	}
	for i < len(f) {
		o, st, why := option()
		if st != OK {
			return failCW(st, why)
		}
		if o.conf {
			continue
		}
		if o.isX {
			xs := i - 1
			if i >= len(f) {
				return fail(Err, "X-at-end", "'X' at the end of the format has no option to take the alignment from")
			}
			if f[i] == 'c' {
				// "c" is not aligned; whether its size is even read is not stated
				return fail(Skip, "X-unaligned-op", "'X' followed by 'c'")
			}
			o2, st, why := option()
			if st != OK {
				return failCW(st, why)
			}
			if o2.conf || o2.isX || !o2.aligned {
				return fail(Skip, "X-unaligned-op", "'X' followed by an option without alignment of its own")
			}
			a, st, why := alignOf(o2.it.Size)
			if st != OK {
				return failCW(st, why)
			}
			res.Items = append(res.Items, Item{Kind: KAlign, Align: a, Little: little, Text: f[xs:i]})
			continue
		}
		it := o.it
		it.Align = 1
		if o.aligned && it.Kind != KPad {
			if it.Kind == KFloat && it.Size != 4 && it.Size != 8 {
				return fail(Skip, "native-size", fmt.Sprintf("native float size %d", it.Size))
			}
			if it.Size < 1 || it.Size > 16 {
				return fail(Skip, "native-size", fmt.Sprintf("native size %d not usable", it.Size))
			}
			a, st, why := alignOf(it.Size)
			if st != OK {
				return failCW(st, why)
			}
			it.Align = a
		}
		res.Items = append(res.Items, it)
	}
	return res, OK
}

// HasVariable reports whether the format has s or z items (packsize must fail).
func (f *Format) HasVariable() bool {
	for _, it := range f.Items {
		if it.Kind == KZ || it.Kind == KLenStr {
			return true
		}
	}
	return false
}

// NValues is the number of arguments the format consumes.
func (f *Format) NValues() int {
	n := 0
	for _, it := range f.Items {
		if it.HasValue() {
			n++
		}
	}
	return n
}

func padTo(off, align int) int {
	if align <= 1 {
		return 0
	}
	return (align - off%align) % align
}

// Size is the result of packsize: Err for variable-size formats.
func (f *Format) Size() (int, Status) {
	if f.HasVariable() {
		return 0, Err
	}
	off := 0
	for _, it := range f.Items {
		off += padTo(off, it.Align)
		switch it.Kind {
		case KAlign:
		default:
			off += it.Size
		}
	}
	return off, OK
}

// VKind of a model value.
type VKind int

const (
	VInt VKind = iota
	VFloat
	VStr
)

// V is a value given to pack / returned by unpack.
type V struct {
	K VKind
	I int64
	F float64
	S string
	// Approx: the float went through a 4-byte float that cannot hold it
	// exactly; unpack may return either neighbour (Lo, Hi).
	Approx bool
	Lo, Hi float64
}

func IntV(i int64) V     { return V{K: VInt, I: i} }
func FloatV(f float64) V { return V{K: VFloat, F: f} }
func StrV(s string) V    { return V{K: VStr, S: s} }

// fitsSigned: v representable in n bytes two's complement (n < 8).
func fitsSigned(v int64, n int) bool {
	if n >= 8 {
		return true
	}
	lim := int64(1) << (8*uint(n) - 1)
	return v >= -lim && v < lim
}

func fitsUnsigned(v int64, n int) bool {
	if n >= 8 {
		return true
	}
	return uint64(v) < uint64(1)<<(8*uint(n))
}

func putInt(u uint64, n int, little bool, ext byte) []byte {
	b := make([]byte, n)
	for k := 0; k < n; k++ {
		var x byte
		if k < 8 {
			x = byte(u >> (8 * uint(k)))
		} else {
			x = ext
		}
		if little {
			b[k] = x
		} else {
			b[n-1-k] = x
		}
	}
	return b
}

// Packed is the model's answer for pack.
type Packed struct {
	Bytes []byte
	// Known[i] is false where the byte is not fixed by the manual (NaN payload,
	// inexact 4-byte float).
	Known []bool
	// Back is what unpack must return for each value item.
	Back []V
}

// Pack lays the values out.  Err: a value does not fit / wrong type / missing.
func (f *Format) Pack(vals []V) (*Packed, Status, string) {
	p := &Packed{}
	emit := func(b []byte, known bool) {
		for _, x := range b {
			p.Bytes = append(p.Bytes, x)
			p.Known = append(p.Known, known)
		}
	}
	vi := 0
	for _, it := range f.Items {
		emit(make([]byte, padTo(len(p.Bytes), it.Align)), true)
		if it.Kind == KAlign {
			continue
		}
		if it.Kind == KPad {
			emit([]byte{0}, true)
			continue
		}
		if vi >= len(vals) {
			return nil, Err, "not enough values"
		}
		v := vals[vi]
		vi++
		switch it.Kind {
		case KInt, KUint:
			if v.K != VInt {
				return nil, Skip, "non-integer given to an integer option (coercion not modelled)"
			}
			if it.Kind == KInt {
				if !fitsSigned(v.I, it.Size) {
					return nil, Err, fmt.Sprintf("%d does not fit in %d signed bytes", v.I, it.Size)
				}
				ext := byte(0)
				if v.I < 0 {
					ext = 0xff
				}
				emit(putInt(uint64(v.I), it.Size, it.Little, ext), true)
			} else {
				if !fitsUnsigned(v.I, it.Size) {
					return nil, Err, fmt.Sprintf("%d does not fit in %d unsigned bytes", uint64(v.I), it.Size)
				}
				emit(putInt(uint64(v.I), it.Size, it.Little, 0), true)
			}
			p.Back = append(p.Back, v)
		case KFloat:
			if v.K != VFloat {
				return nil, Skip, "non-float given to a float option (coercion not modelled)"
			}
			if it.Size == 8 {
				b := make([]byte, 8)
				if it.Little {
					binary.LittleEndian.PutUint64(b, math.Float64bits(v.F))
				} else {
					binary.BigEndian.PutUint64(b, math.Float64bits(v.F))
				}
				emit(b, v.F == v.F)
				p.Back = append(p.Back, v)
				break
			}
			// 4-byte float
			switch {
			case v.F != v.F:
				emit(make([]byte, 4), false)
				p.Back = append(p.Back, v)
			case math.IsInf(v.F, 0) || float64(float32(v.F)) == v.F:
				b := make([]byte, 4)
				if it.Little {
					binary.LittleEndian.PutUint32(b, math.Float32bits(float32(v.F)))
				} else {
					binary.BigEndian.PutUint32(b, math.Float32bits(float32(v.F)))
				}
				emit(b, true)
				p.Back = append(p.Back, v)
			case math.Abs(v.F) > math.MaxFloat32:
				return nil, Skip, "finite value outside the range of a 4-byte float (C conversion undefined)"
			default:
				// inexact: the C conversion may round either way
				near := float32(v.F)
				lo, hi := float64(near), float64(near)
				if lo > v.F {
					lo = float64(math.Nextafter32(near, float32(math.Inf(-1))))
				} else {
					hi = float64(math.Nextafter32(near, float32(math.Inf(1))))
				}
				emit(make([]byte, 4), false)
				p.Back = append(p.Back, V{K: VFloat, F: v.F, Approx: true, Lo: lo, Hi: hi})
			}
		case KFixed:
			if v.K != VStr {
				return nil, Skip, "non-string given to a string option"
			}
			if len(v.S) > it.Size {
				return nil, Err, fmt.Sprintf("string of length %d longer than c%d", len(v.S), it.Size)
			}
			emit([]byte(v.S), true)
			emit(make([]byte, it.Size-len(v.S)), true)
			p.Back = append(p.Back, StrV(v.S+string(make([]byte, it.Size-len(v.S)))))
		case KZ:
			if v.K != VStr {
				return nil, Skip, "non-string given to a string option"
			}
			for k := 0; k < len(v.S); k++ {
				if v.S[k] == 0 {
					return nil, Err, "string given to 'z' contains a zero"
				}
			}
			emit([]byte(v.S), true)
			emit([]byte{0}, true)
			p.Back = append(p.Back, v)
		case KLenStr:
			if v.K != VStr {
				return nil, Skip, "non-string given to a string option"
			}
			if !fitsUnsigned(int64(len(v.S)), it.Size) {
				return nil, Err, fmt.Sprintf("length %d does not fit in %d bytes", len(v.S), it.Size)
			}
			emit(putInt(uint64(len(v.S)), it.Size, it.Little, 0), true)
			emit([]byte(v.S), true)
			p.Back = append(p.Back, v)
		}
	}
	return p, OK, ""
}

// Unpack decodes data starting at byte offset pos (0-based) and returns the
// values and the 0-based offset of the first unread byte.  Alignment is relative
// to the start of data.
func (f *Format) Unpack(data []byte, pos int) ([]V, int, Status, string) {
	var out []V
	off := pos
	need := func(n int) bool { return n >= 0 && off+n <= len(data) }
	for _, it := range f.Items {
		pad := padTo(off, it.Align)
		if it.Kind == KAlign {
			// alignment-only item: the padding must exist in the data?  The manual
			// says padding is ignored by unpack; whether missing trailing padding
			// is an error is not stated.
			if !need(pad) {
				return nil, 0, Skip, "alignment padding past the end of the data"
			}
			off += pad
			continue
		}
		if !need(pad) {
			return nil, 0, Err, "data string too short"
		}
		off += pad
		switch it.Kind {
		case KPad:
			if !need(1) {
				return nil, 0, Err, "data string too short"
			}
			off++
		case KInt, KUint:
			if !need(it.Size) {
				return nil, 0, Err, "data string too short"
			}
			b := data[off : off+it.Size]
			at := func(k int) byte { // k-th least significant byte
				if it.Little {
					return b[k]
				}
				return b[it.Size-1-k]
			}
			var u uint64
			for k := 0; k < it.Size && k < 8; k++ {
				u |= uint64(at(k)) << (8 * uint(k))
			}
			if it.Size < 8 && it.Kind == KInt {
				// sign extend
				sh := 64 - 8*uint(it.Size)
				u = uint64(int64(u<<sh) >> sh)
			}
			if it.Size > 8 {
				want := byte(0)
				if it.Kind == KInt && int64(u) < 0 {
					want = 0xff
				}
				for k := 8; k < it.Size; k++ {
					if at(k) != want {
						return nil, 0, Err, fmt.Sprintf("%d-byte integer does not fit into a Lua integer", it.Size)
					}
				}
			}
			out = append(out, IntV(int64(u)))
			off += it.Size
		case KFloat:
			if !need(it.Size) {
				return nil, 0, Err, "data string too short"
			}
			b := data[off : off+it.Size]
			if it.Size == 8 {
				var u uint64
				if it.Little {
					u = binary.LittleEndian.Uint64(b)
				} else {
					u = binary.BigEndian.Uint64(b)
				}
				out = append(out, FloatV(math.Float64frombits(u)))
			} else {
				var u uint32
				if it.Little {
					u = binary.LittleEndian.Uint32(b)
				} else {
					u = binary.BigEndian.Uint32(b)
				}
				out = append(out, FloatV(float64(math.Float32frombits(u))))
			}
			off += it.Size
		case KFixed:
			if !need(it.Size) {
				return nil, 0, Err, "data string too short"
			}
			out = append(out, StrV(string(data[off:off+it.Size])))
			off += it.Size
		case KZ:
			e := off
			for e < len(data) && data[e] != 0 {
				e++
			}
			if e >= len(data) {
				return nil, 0, Err, "unfinished string for format 'z'"
			}
			out = append(out, StrV(string(data[off:e])))
			off = e + 1
		case KLenStr:
			if !need(it.Size) {
				return nil, 0, Err, "data string too short"
			}
			b := data[off : off+it.Size]
			var u uint64
			big := false
			for k := 0; k < it.Size; k++ {
				var x byte
				if it.Little {
					x = b[k]
				} else {
					x = b[it.Size-1-k]
				}
				if k < 8 {
					u |= uint64(x) << (8 * uint(k))
				} else if x != 0 {
					big = true
				}
			}
			off += it.Size
			if big || u > uint64(len(data)) || !need(int(u)) {
				return nil, 0, Err, "data string too short for the announced length"
			}
			out = append(out, StrV(string(data[off:off+int(u)])))
			off += int(u)
		}
	}
	return out, off, OK, ""
}

// Class is a short canonical description of the format for signatures: the
// reason code of a malformed / open format, else the directive classes
// (integer widths grouped as <8, 8, >8; fixed strings as c0 / cN).
func (f *Format) Class(st Status) string {
	if st == Err {
		return "malformed:" + f.Code
	}
	if st == Skip {
		return "open:" + f.Code
	}
	out := ""
	aligned := false
	for k, it := range f.Items {
		if k == 3 {
			out += "+"
			break
		}
		if it.Align > 1 {
			aligned = true
		}
		c := ""
		switch it.Kind {
		case KInt, KUint:
			l := it.Text[:1]
			switch {
			case l != "i" && l != "I":
				c = l
			case len(it.Text) == 1:
				c = l
			case it.Size < 8:
				c = l + "<8"
			case it.Size == 8:
				c = l + "8"
			default:
				c = l + ">8"
			}
		case KFloat, KZ, KPad:
			c = it.Text
		case KFixed:
			c = "cN"
			if it.Size == 0 {
				c = "c0"
			}
		case KLenStr:
			c = "sN"
			if len(it.Text) == 1 {
				c = "s"
			}
		case KAlign:
			c = "X" + it.Text[1:2]
		}
		if out != "" {
			out += " "
		}
		out += c
	}
	if aligned {
		out = "! " + out
	}
	if out == "" {
		out = "(empty)"
	}
	return out
}
