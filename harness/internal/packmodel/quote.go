package packmodel

import (
	"math"
	"unicode/utf8"

	nm "verif/internal/numodel"
)

// Independent reading of what string.format("%q", v) produced, by the lexical
// rules of the Lua 5.4 manual §3.1.  The text must be a single literal
// expression: a short string in double quotes, or a numeral with an optional
// minus sign, or one of the spellings the reference implementation uses for
// values that have no numeral (1e9999, -1e9999, (0/0), -(0/0), math.mininteger
// as 0x8000000000000000).  Anything else is "unknown form": no verdict from
// the decoder (the verdict then comes only from loading the text).

// QKind of a decoded literal.
type QKind int

const (
	QUnknown QKind = iota // not one of the forms understood here
	QInvalid              // looks like a string / numeral but violates §3.1
	QString
	QNumber
	QNil
	QBool
)

type QVal struct {
	Kind QKind
	S    string
	N    nm.V
	B    bool
	Why  string
}

func isHex(c byte) bool {
	return c >= '0' && c <= '9' || c >= 'a' && c <= 'f' || c >= 'A' && c <= 'F'
}
func hexVal(c byte) int {
	switch {
	case c >= '0' && c <= '9':
		return int(c - '0')
	case c >= 'a' && c <= 'f':
		return int(c-'a') + 10
	}
	return int(c-'A') + 10
}
func isDec(c byte) bool { return c >= '0' && c <= '9' }

// DecodeShortString decodes a "..." or '...' literal that must span all of s.
func DecodeShortString(s string) (string, bool, string) {
	if len(s) < 2 || (s[0] != '"' && s[0] != '\'') {
		return "", false, "no opening quote"
	}
	q := s[0]
	var out []byte
	i := 1
	for {
		if i >= len(s) {
			return "", false, "unfinished string"
		}
		c := s[i]
		switch {
		case c == q:
			if i != len(s)-1 {
				return "", false, "text after the closing quote"
			}
			return string(out), true, ""
		case c == '\n' || c == '\r':
			return "", false, "unescaped line break in a short string"
		case c != '\\':
			out = append(out, c)
			i++
		default:
			i++
			if i >= len(s) {
				return "", false, "unfinished escape"
			}
			e := s[i]
			switch e {
			case 'a':
				out = append(out, 7)
				i++
			case 'b':
				out = append(out, 8)
				i++
			case 'f':
				out = append(out, 12)
				i++
			case 'n':
				out = append(out, 10)
				i++
			case 'r':
				out = append(out, 13)
				i++
			case 't':
				out = append(out, 9)
				i++
			case 'v':
				out = append(out, 11)
				i++
			case '\\', '"', '\'':
				out = append(out, e)
				i++
			case '\n', '\r':
				// backslash-newline: a newline in the string; \r\n and \n\r count as one
				out = append(out, '\n')
				i++
				if i < len(s) && (s[i] == '\n' || s[i] == '\r') && s[i] != e {
					i++
				}
			case 'z':
				i++
				for i < len(s) && (s[i] == ' ' || s[i] >= 9 && s[i] <= 13) {
					i++
				}
			case 'x':
				if i+2 >= len(s) || !isHex(s[i+1]) || !isHex(s[i+2]) {
					return "", false, "\\x needs exactly two hexadecimal digits"
				}
				out = append(out, byte(hexVal(s[i+1])<<4|hexVal(s[i+2])))
				i += 3
			case 'u':
				if i+1 >= len(s) || s[i+1] != '{' {
					return "", false, "\\u needs '{'"
				}
				j := i + 2
				var r uint64
				n := 0
				for j < len(s) && isHex(s[j]) {
					r = r<<4 | uint64(hexVal(s[j]))
					if r >= 1<<31 {
						return "", false, "\\u{} value too large"
					}
					j++
					n++
				}
				if n == 0 || j >= len(s) || s[j] != '}' {
					return "", false, "malformed \\u{}"
				}
				out = append(out, utf8Extended(uint32(r))...)
				i = j + 1
			default:
				if !isDec(e) {
					return "", false, "invalid escape sequence \\" + string(e)
				}
				v := 0
				n := 0
				for n < 3 && i < len(s) && isDec(s[i]) {
					v = v*10 + int(s[i]-'0')
					i++
					n++
				}
				if v > 255 {
					return "", false, "decimal escape too large"
				}
				out = append(out, byte(v))
			}
		}
	}
}

// utf8Extended encodes up to 2^31 in the original (up to six byte) UTF-8.
func utf8Extended(r uint32) []byte {
	if r < 0x110000 && !(r >= 0xD800 && r < 0xE000) {
		b := make([]byte, 4)
		return b[:utf8.EncodeRune(b, rune(r))]
	}
	switch {
	case r < 0x800:
		return []byte{0xC0 | byte(r>>6), 0x80 | byte(r)&0x3F}
	case r < 0x10000:
		return []byte{0xE0 | byte(r>>12), 0x80 | byte(r>>6)&0x3F, 0x80 | byte(r)&0x3F}
	case r < 0x200000:
		return []byte{0xF0 | byte(r>>18), 0x80 | byte(r>>12)&0x3F, 0x80 | byte(r>>6)&0x3F, 0x80 | byte(r)&0x3F}
	case r < 0x4000000:
		return []byte{0xF8 | byte(r>>24), 0x80 | byte(r>>18)&0x3F, 0x80 | byte(r>>12)&0x3F, 0x80 | byte(r>>6)&0x3F, 0x80 | byte(r)&0x3F}
	}
	return []byte{0xFC | byte(r>>30), 0x80 | byte(r>>24)&0x3F, 0x80 | byte(r>>18)&0x3F, 0x80 | byte(r>>12)&0x3F, 0x80 | byte(r>>6)&0x3F, 0x80 | byte(r)&0x3F}
}

// DecodeQ reads the output of %q.
func DecodeQ(s string) QVal {
	if s == "nil" {
		return QVal{Kind: QNil}
	}
	if s == "true" || s == "false" {
		return QVal{Kind: QBool, B: s == "true"}
	}
	if len(s) > 0 && s[0] == '"' {
		str, ok, why := DecodeShortString(s)
		if !ok {
			return QVal{Kind: QInvalid, Why: why}
		}
		return QVal{Kind: QString, S: str}
	}
	switch s {
	case "(0/0)", "-(0/0)", "0/0", "(-(0/0))":
		return QVal{Kind: QNumber, N: nm.F(math.NaN())}
	case "math.mininteger":
		return QVal{Kind: QNumber, N: nm.I(math.MinInt64)}
	case "math.huge":
		return QVal{Kind: QNumber, N: nm.F(math.Inf(1))}
	case "-math.huge":
		return QVal{Kind: QNumber, N: nm.F(math.Inf(-1))}
	}
	neg := false
	t := s
	if len(t) > 0 && t[0] == '-' {
		neg = true
		t = t[1:]
	}
	if len(t) == 0 || !(isDec(t[0]) || t[0] == '.') {
		return QVal{Kind: QUnknown}
	}
	if t == "1e9999" {
		if neg {
			return QVal{Kind: QNumber, N: nm.F(math.Inf(-1))}
		}
		return QVal{Kind: QNumber, N: nm.F(math.Inf(1))}
	}
	v, st := nm.ParseNumeral(t)
	switch st {
	case nm.Err:
		return QVal{Kind: QInvalid, Why: "not a numeral by §3.1: " + t}
	case nm.Skip:
		return QVal{Kind: QUnknown}
	}
	if neg {
		// unary minus applied to the constant
		r, st := nm.Unm(v)
		if st != nm.Val {
			return QVal{Kind: QUnknown}
		}
		v = r
	}
	return QVal{Kind: QNumber, N: v}
}
