// Package numodel is an executable model of Lua 5.4 numbers written from the
// reference manual (§3.1 numerals, §3.4.1-§3.4.4 operators and coercions,
// §6.7 math).  Integer arithmetic goes through math/big reduced modulo 2^64,
// mixed comparison through exact big.Float values, numerals through big.Rat
// with one final round-to-nearest-even.  It uses no golua code.
package numodel

import (
	"math"
	"math/big"
	"strconv"
	"strings"
)

type Kind int

const (
	Int Kind = iota
	Float
	Str
	Bool
	Nil
)

// V is a model value.
type V struct {
	K Kind
	I int64
	F float64
	S string
	B bool
}

func I(i int64) V   { return V{K: Int, I: i} }
func F(f float64) V { return V{K: Float, F: f} }
func S(s string) V  { return V{K: Str, S: s} }
func B(b bool) V    { return V{K: Bool, B: b} }

var NilV = V{K: Nil}

// Enc encodes like gl.Namer.Enc.
func (v V) Enc() string {
	switch v.K {
	case Int:
		return "i:" + strconv.FormatInt(v.I, 10)
	case Float:
		if v.F != v.F {
			return "f:nan"
		}
		return "f:" + strconv.FormatUint(math.Float64bits(v.F), 16)
	case Str:
		return "s:" + strconv.Quote(v.S)
	case Bool:
		if v.B {
			return "b:true"
		}
		return "b:false"
	}
	return "n"
}

// Lua renders the value as a Lua expression that denotes exactly it (used to
// build operands inside generated source when not passed as arguments).
func (v V) Lua() string {
	switch v.K {
	case Int:
		if v.I == math.MinInt64 {
			return "math.mininteger"
		}
		if v.I < 0 {
			return "(" + strconv.FormatInt(v.I, 10) + ")"
		}
		return strconv.FormatInt(v.I, 10)
	case Float:
		switch {
		case v.F != v.F:
			return "(0/0)"
		case math.IsInf(v.F, 1):
			return "(1/0)"
		case math.IsInf(v.F, -1):
			return "(-1/0)"
		case v.F == 0 && math.Signbit(v.F):
			return "(-0.0)"
		}
		s := strconv.FormatFloat(v.F, 'x', -1, 64) // hex float, exact
		if v.F < 0 {
			return "(" + s + ")"
		}
		return s
	case Str:
		return strconv.Quote(v.S)
	case Bool:
		if v.B {
			return "true"
		}
		return "false"
	}
	return "nil"
}

// Status of a model answer.
type Status int

const (
	Val  Status = iota // the manual defines this value
	Err                // the manual defines an error
	Skip               // the manual leaves it open; no verdict
)

var (
	two64 = new(big.Int).Lsh(big.NewInt(1), 64)
	two63 = new(big.Int).Lsh(big.NewInt(1), 63)
	maxI  = big.NewInt(math.MaxInt64)
	minI  = big.NewInt(math.MinInt64)
)

// wrap reduces x modulo 2^64 into the int64 range.
func wrap(x *big.Int) int64 {
	m := new(big.Int).Mod(x, two64) // 0 <= m < 2^64
	if m.Cmp(two63) >= 0 {
		m.Sub(m, two64)
	}
	return m.Int64()
}

func bi(i int64) *big.Int { return big.NewInt(i) }

// exactFloat returns f as an exact big.Float (f finite).
func exactFloat(f float64) *big.Float { return new(big.Float).SetPrec(64).SetFloat64(f) }
func exactInt(i int64) *big.Float     { return new(big.Float).SetPrec(64).SetInt64(i) }

// IntToFloat converts with round-to-nearest-even through big.Float.
func IntToFloat(i int64) float64 {
	f, _ := new(big.Float).SetPrec(53).SetMode(big.ToNearestEven).SetInt64(i).Float64()
	return f
}

// FloatToInt returns the integer f denotes exactly, if it is in range.
func FloatToInt(f float64) (int64, bool) {
	if f != f || math.IsInf(f, 0) {
		return 0, false
	}
	bf := exactFloat(f)
	if !bf.IsInt() {
		return 0, false
	}
	z, _ := bf.Int(nil)
	if z.Cmp(minI) < 0 || z.Cmp(maxI) > 0 {
		return 0, false
	}
	return z.Int64(), true
}

// ToNumber applies the string->number coercion of §3.4.3 to a value.
func ToNumber(v V) (V, bool) {
	switch v.K {
	case Int, Float:
		return v, true
	case Str:
		n, st := StringToNumber(v.S)
		if st == Val {
			return n, true
		}
	}
	return v, false
}

// Arith computes a binary arithmetic operator ("+","-","*","/","//","%","^").
func Arith(op string, a, b V) (V, Status) {
	if a.K == Str || b.K == Str {
		// string arithmetic: strings are converted following the lexer rules
		na, oka := ToNumber(a)
		nb, okb := ToNumber(b)
		if !oka || !okb {
			if (a.K == Str && !oka && numSkip(a.S)) || (b.K == Str && !okb && numSkip(b.S)) {
				return NilV, Skip
			}
			return NilV, Err
		}
		a, b = na, nb
	}
	if (a.K != Int && a.K != Float) || (b.K != Int && b.K != Float) {
		return NilV, Err
	}
	if op == "/" || op == "^" {
		fa, fb := toF(a), toF(b)
		if op == "/" {
			return F(fa / fb), Val
		}
		return pow(fa, fb)
	}
	if a.K == Int && b.K == Int {
		x, y := bi(a.I), bi(b.I)
		switch op {
		case "+":
			return I(wrap(x.Add(x, y))), Val
		case "-":
			return I(wrap(x.Sub(x, y))), Val
		case "*":
			return I(wrap(x.Mul(x, y))), Val
		case "//", "%":
			if b.I == 0 {
				return NilV, Err
			}
			q := floorDiv(x, y)
			if op == "//" {
				return I(wrap(q)), Val
			}
			r := new(big.Int).Sub(x, new(big.Int).Mul(q, y))
			return I(wrap(r)), Val
		}
	}
	fa, fb := toF(a), toF(b)
	switch op {
	case "+":
		return F(fa + fb), Val
	case "-":
		return F(fa - fb), Val
	case "*":
		return F(fa * fb), Val
	case "//":
		return F(math.Floor(fa / fb)), Val
	case "%":
		// reference definition: m = fmod(a,b); if m and b have different signs, m += b
		if math.IsInf(fb, 0) && !math.IsInf(fa, 0) && fa == fa {
			// a % ±inf: a when signs agree (or a is zero); otherwise the manual's
			// "a - floor(a/b)*b" is not a number while the reference gives ±inf: open.
			if fa == 0 || (fa > 0) == (fb > 0) {
				return F(fa), Val
			}
			return NilV, Skip
		}
		m := math.Mod(fa, fb)
		if m != 0 && (m < 0) != (fb < 0) {
			m += fb
		}
		return F(m), Val
	}
	return NilV, Skip
}

func toF(v V) float64 {
	if v.K == Int {
		return IntToFloat(v.I)
	}
	return v.F
}

// floorDiv returns floor(x/y), y != 0.
func floorDiv(x, y *big.Int) *big.Int {
	r := new(big.Rat).SetFrac(x, y) // denominator normalised positive
	// Euclidean division by a positive number is floor division
	return new(big.Int).Div(r.Num(), r.Denom())
}

// pow only answers where the result is exactly representable and the manual's
// "exponentiation" leaves no room: integral base, small non-negative integral
// exponent, or powers of two.
func pow(a, b float64) (V, Status) {
	if a != a || b != b || math.IsInf(a, 0) || math.IsInf(b, 0) {
		return NilV, Skip
	}
	if b != math.Trunc(b) || a != math.Trunc(a) || math.Abs(b) > 1100 || math.Abs(a) > 1<<53 {
		return NilV, Skip
	}
	if b >= 0 {
		r := new(big.Int).Exp(new(big.Int).SetInt64(int64(a)), big.NewInt(int64(b)), nil)
		if r.BitLen() <= 53 {
			f, _ := new(big.Float).SetInt(r).Float64()
			if f == 0 && a == 0 && b > 0 {
				// sign of zero: (-0)^odd is -0 in C; base here is an integer-valued float
				if math.Signbit(a) && int64(b)%2 == 1 {
					return F(math.Copysign(0, -1)), Val
				}
			}
			return F(f), Val
		}
		return NilV, Skip
	}
	// negative exponent: only powers of two are exact
	if a == 0 {
		return NilV, Skip
	}
	abs := math.Abs(a)
	fr, _ := math.Frexp(abs)
	if fr != 0.5 {
		if abs == 1 {
			if a < 0 && int64(b)%2 != 0 {
				return F(-1), Val
			}
			return F(1), Val
		}
		return NilV, Skip
	}
	_, e := math.Frexp(abs) // abs = 2^(e-1)
	k := float64(e-1) * b
	if k < -1022 {
		return NilV, Skip
	}
	r := math.Ldexp(1, int(k))
	if a < 0 && int64(b)%2 != 0 {
		r = -r
	}
	return F(r), Val
}

// Unm is unary minus.
func Unm(a V) (V, Status) {
	if a.K == Str {
		n, ok := ToNumber(a)
		if !ok {
			if numSkip(a.S) {
				return NilV, Skip
			}
			return NilV, Err
		}
		a = n
	}
	switch a.K {
	case Int:
		x := bi(a.I)
		return I(wrap(x.Neg(x))), Val
	case Float:
		return F(-a.F), Val
	}
	return NilV, Err
}

// toBitInt converts an operand of a bitwise operator.
func toBitInt(v V) (int64, Status) {
	switch v.K {
	case Int:
		return v.I, Val
	case Float:
		if i, ok := FloatToInt(v.F); ok {
			return i, Val
		}
		return 0, Err
	case Str:
		return 0, Skip // the implementation rejects, the reference converts: not judged
	}
	return 0, Err
}

// Bitwise computes "&","|","~","<<",">>".
func Bitwise(op string, a, b V) (V, Status) {
	x, sx := toBitInt(a)
	y, sy := toBitInt(b)
	if sx == Skip || sy == Skip {
		return NilV, Skip
	}
	if sx == Err || sy == Err {
		return NilV, Err
	}
	ux, uy := new(big.Int).SetUint64(uint64(x)), new(big.Int).SetUint64(uint64(y))
	switch op {
	case "&":
		return I(wrap(ux.And(ux, uy))), Val
	case "|":
		return I(wrap(ux.Or(ux, uy))), Val
	case "~":
		return I(wrap(ux.Xor(ux, uy))), Val
	case "<<", ">>":
		n := y
		left := op == "<<"
		if n < 0 {
			left = !left
			if n == math.MinInt64 {
				return I(0), Val
			}
			n = -n
		}
		if n >= 64 {
			return I(0), Val
		}
		if left {
			return I(wrap(ux.Lsh(ux, uint(n)))), Val
		}
		return I(wrap(ux.Rsh(ux, uint(n)))), Val // logical: ux is the unsigned pattern
	}
	return NilV, Skip
}

func BNot(a V) (V, Status) {
	x, s := toBitInt(a)
	if s != Val {
		return NilV, s
	}
	ux := new(big.Int).SetUint64(uint64(x))
	all := new(big.Int).Sub(two64, big.NewInt(1))
	return I(wrap(ux.Xor(ux, all))), Val
}

// cmpNum compares two numbers exactly: -1, 0, 1, or 2 if unordered (NaN).
func cmpNum(a, b V) int {
	if (a.K == Float && a.F != a.F) || (b.K == Float && b.F != b.F) {
		return 2
	}
	var x, y *big.Float
	if a.K == Int {
		x = exactInt(a.I)
	} else if math.IsInf(a.F, 0) {
		x = new(big.Float).SetInf(a.F < 0)
	} else {
		x = exactFloat(a.F)
	}
	if b.K == Int {
		y = exactInt(b.I)
	} else if math.IsInf(b.F, 0) {
		y = new(big.Float).SetInf(b.F < 0)
	} else {
		y = exactFloat(b.F)
	}
	return x.Cmp(y)
}

func isNum(v V) bool { return v.K == Int || v.K == Float }

// Compare computes "<", "<=", ">", ">=", "==", "~=".
func Compare(op string, a, b V) (V, Status) {
	switch op {
	case "==", "~=":
		eq := false
		switch {
		case isNum(a) && isNum(b):
			eq = cmpNum(a, b) == 0
		case a.K == Str && b.K == Str:
			eq = a.S == b.S
		case a.K == Bool && b.K == Bool:
			eq = a.B == b.B
		case a.K == Nil && b.K == Nil:
			eq = true
		}
		return B(eq == (op == "==")), Val
	}
	if op == ">" {
		return Compare("<", b, a)
	}
	if op == ">=" {
		return Compare("<=", b, a)
	}
	switch {
	case isNum(a) && isNum(b):
		c := cmpNum(a, b)
		if c == 2 {
			return B(false), Val
		}
		if op == "<" {
			return B(c < 0), Val
		}
		return B(c <= 0), Val
	case a.K == Str && b.K == Str:
		// byte order is what the C locale gives; callers keep to ASCII
		if op == "<" {
			return B(a.S < b.S), Val
		}
		return B(a.S <= b.S), Val
	}
	return NilV, Err
}

// ---------------------------------------------------------------------------
// Numerals

func isSpace(c byte) bool {
	return c == ' ' || c == '\t' || c == '\n' || c == '\v' || c == '\f' || c == '\r'
}
func isDigit(c byte) bool { return c >= '0' && c <= '9' }
func isXDigit(c byte) bool {
	return isDigit(c) || (c >= 'a' && c <= 'f') || (c >= 'A' && c <= 'F')
}
func xval(c byte) int64 {
	switch {
	case isDigit(c):
		return int64(c - '0')
	case c >= 'a':
		return int64(c-'a') + 10
	}
	return int64(c-'A') + 10
}

// numSkip says whether a string that is not a numeral for the model is in an
// area the manual leaves to the C library (so that an implementation accepting
// it is not judged): none currently - kept as a hook for non-ASCII whitespace.
func numSkip(s string) bool {
	for i := 0; i < len(s); i++ {
		if s[i] >= 0x80 {
			return true
		}
	}
	return false
}

// StringToNumber models lua_stringtonumber: optional surrounding whitespace,
// optional sign, then a numeral by the lexer rules.  inf/nan are rejected.
func StringToNumber(s string) (V, Status) {
	if numSkip(s) {
		return NilV, Skip
	}
	i, j := 0, len(s)
	for i < j && isSpace(s[i]) {
		i++
	}
	for j > i && isSpace(s[j-1]) {
		j--
	}
	s = s[i:j]
	neg := false
	if len(s) > 0 && (s[0] == '-' || s[0] == '+') {
		neg = s[0] == '-'
		s = s[1:]
	}
	v, st := ParseNumeral(s)
	if st != Val {
		return NilV, st
	}
	if neg && v.K == Float && v.F == 9223372036854775808 && strings.Trim(s, "0123456789") == "" {
		// "-9223372036854775808": by the lexer rules the magnitude overflows to a
		// float, the reference implementation yields math.mininteger: not judged.
		if z, ok := new(big.Int).SetString(s, 10); ok && z.Cmp(two63) == 0 {
			return NilV, Skip
		}
	}
	if neg {
		if v.K == Int {
			x := bi(v.I)
			v = I(wrap(x.Neg(x)))
		} else {
			v = F(-v.F)
		}
	}
	return v, Val
}

// ParseNumeral decodes an unsigned numeral exactly as §3.1 defines it.  The
// whole string must be one numeral.
func ParseNumeral(s string) (V, Status) {
	if len(s) == 0 {
		return NilV, Err
	}
	if len(s) >= 2 && s[0] == '0' && (s[1] == 'x' || s[1] == 'X') {
		return parseHex(s[2:])
	}
	// decimal: digits [. digits] [eE [+-] digits], at least one digit in the mantissa
	i := 0
	intPart := 0
	for i < len(s) && isDigit(s[i]) {
		i++
		intPart++
	}
	fracPart := 0
	isFloat := false
	if i < len(s) && s[i] == '.' {
		isFloat = true
		i++
		for i < len(s) && isDigit(s[i]) {
			i++
			fracPart++
		}
	}
	if intPart+fracPart == 0 {
		return NilV, Err
	}
	mantEnd := i
	exp := int64(0)
	if i < len(s) && (s[i] == 'e' || s[i] == 'E') {
		isFloat = true
		i++
		eneg := false
		if i < len(s) && (s[i] == '+' || s[i] == '-') {
			eneg = s[i] == '-'
			i++
		}
		nd := 0
		for i < len(s) && isDigit(s[i]) {
			if exp < 1<<40 {
				exp = exp*10 + int64(s[i]-'0')
			}
			i++
			nd++
		}
		if nd == 0 {
			return NilV, Err
		}
		if eneg {
			exp = -exp
		}
	}
	if i != len(s) {
		return NilV, Err
	}
	if !isFloat {
		z, _ := new(big.Int).SetString(s, 10)
		if z.Cmp(maxI) <= 0 {
			return I(z.Int64()), Val
		}
		// "A decimal integer numeral that overflows ... denotes a float"
		f, _ := new(big.Float).SetPrec(53).SetMode(big.ToNearestEven).SetInt(z).Float64()
		if math.IsInf(f, 0) {
			return NilV, Skip
		}
		return F(f), Val
	}
	mant := strings.Replace(s[:mantEnd], ".", "", 1)
	z, _ := new(big.Int).SetString(mant, 10)
	return ratToFloat(z, 10, exp-int64(fracPart))
}

func parseHex(s string) (V, Status) {
	i := 0
	nd := 0
	mant := new(big.Int)
	sixteen := big.NewInt(16)
	for i < len(s) && isXDigit(s[i]) {
		mant.Mul(mant, sixteen).Add(mant, big.NewInt(xval(s[i])))
		i++
		nd++
	}
	frac := 0
	isFloat := false
	if i < len(s) && s[i] == '.' {
		isFloat = true
		i++
		for i < len(s) && isXDigit(s[i]) {
			mant.Mul(mant, sixteen).Add(mant, big.NewInt(xval(s[i])))
			i++
			frac++
		}
	}
	if nd+frac == 0 {
		return NilV, Err
	}
	exp := int64(0)
	if i < len(s) && (s[i] == 'p' || s[i] == 'P') {
		isFloat = true
		i++
		eneg := false
		if i < len(s) && (s[i] == '+' || s[i] == '-') {
			eneg = s[i] == '-'
			i++
		}
		n := 0
		for i < len(s) && isDigit(s[i]) {
			if exp < 1<<40 {
				exp = exp*10 + int64(s[i]-'0')
			}
			i++
			n++
		}
		if n == 0 {
			return NilV, Err
		}
		if eneg {
			exp = -exp
		}
	}
	if i != len(s) {
		return NilV, Err
	}
	if !isFloat {
		// "Hexadecimal numerals with neither a radix point nor an exponent always
		// denote an integer value; if the value overflows, it wraps around"
		return I(wrap(mant)), Val
	}
	return ratToFloat(mant, 2, exp-4*int64(frac))
}

// ratToFloat returns mant * base^exp rounded to nearest even.
func ratToFloat(mant *big.Int, base int64, exp int64) (V, Status) {
	if mant.Sign() == 0 {
		return F(0), Val
	}
	// magnitude guard: outside the finite double range the C library decides
	var mag10 float64
	if base == 10 {
		mag10 = float64(int64(len(mant.Text(10))) + exp)
	} else {
		mag10 = float64(int64(mant.BitLen())+exp) * 0.30103
	}
	if mag10 > 308 || mag10 < -307 {
		return NilV, Skip
	}
	r := new(big.Rat).SetInt(mant)
	p := new(big.Int).Exp(big.NewInt(base), big.NewInt(abs64(exp)), nil)
	if exp >= 0 {
		r.Mul(r, new(big.Rat).SetInt(p))
	} else {
		r.Quo(r, new(big.Rat).SetInt(p))
	}
	f, _ := r.Float64() // nearest, ties to even
	if math.IsInf(f, 0) || f == 0 || math.Abs(f) < 2.3e-308 {
		return NilV, Skip
	}
	return F(f), Val
}

func abs64(x int64) int64 {
	if x < 0 {
		return -x
	}
	return x
}
