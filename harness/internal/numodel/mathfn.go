package numodel

import (
	"math"
	"math/big"
)

// Math models the integer/float functions of the math library.  Arguments are
// numbers only (string arguments are left out: the manual does not fix them).
// The result is a list of values.
func Math(fn string, args ...V) ([]V, Status) {
	for _, a := range args {
		if !isNum(a) {
			return nil, Skip
		}
	}
	switch fn {
	case "type":
		if args[0].K == Int {
			return []V{S("integer")}, Val
		}
		return []V{S("float")}, Val
	case "tointeger":
		a := args[0]
		if a.K == Int {
			return []V{a}, Val
		}
		if i, ok := FloatToInt(a.F); ok {
			return []V{I(i)}, Val
		}
		return []V{NilV}, Val
	case "floor", "ceil":
		a := args[0]
		if a.K == Int {
			return []V{a}, Val
		}
		f := math.Floor(a.F)
		if fn == "ceil" {
			f = math.Ceil(a.F)
		}
		if i, ok := FloatToInt(f); ok {
			return []V{I(i)}, Val
		}
		return []V{F(f)}, Val
	case "abs":
		a := args[0]
		if a.K == Int {
			x := bi(a.I)
			return []V{I(wrap(x.Abs(x)))}, Val
		}
		return []V{F(math.Abs(a.F))}, Val
	case "fmod":
		a, b := args[0], args[1]
		if a.K == Int && b.K == Int {
			if b.I == 0 {
				return nil, Err
			}
			r := new(big.Int).Rem(bi(a.I), bi(b.I)) // truncated, sign of dividend
			return []V{I(wrap(r))}, Val
		}
		return []V{F(math.Mod(toF(a), toF(b)))}, Val
	case "modf":
		a := args[0]
		if a.K == Int {
			// an integer is its own integral part, exactly
			return []V{a, F(0)}, Val
		}
		f := toF(a)
		var ip float64
		if f >= 0 {
			ip = math.Floor(f)
		} else {
			ip = math.Ceil(f)
		}
		var fp float64
		if math.IsInf(f, 0) {
			fp = 0
		} else {
			fp = f - ip
		}
		// "Returns the integral part of x and the fractional part of x. Its second result is always a float."
		// The first result is a float with an integral value in the reference
		// implementation; the manual does not fix its subtype, so it is compared by value.
		return []V{F(ip), F(fp)}, Val
	case "max", "min":
		best := args[0]
		for _, a := range args {
			if a.K == Float && a.F != a.F {
				return nil, Skip
			}
		}
		for _, a := range args[1:] {
			c := cmpNum(a, best)
			if (fn == "max" && c > 0) || (fn == "min" && c < 0) {
				best = a
			}
		}
		return []V{best}, Val
	case "ult":
		a, b := args[0], args[1]
		x, sx := toBitInt(a)
		y, sy := toBitInt(b)
		if sx != Val || sy != Val {
			return nil, Err
		}
		return []V{B(uint64(x) < uint64(y))}, Val
	}
	return nil, Skip
}

// NumEq reports whether two model values are equal as Lua numbers (used where
// the manual fixes a value but not its subtype).
func NumEq(a, b V) bool {
	if !isNum(a) || !isNum(b) {
		return false
	}
	if a.K == Float && a.F != a.F {
		return b.K == Float && b.F != b.F
	}
	if a.K == Float && b.K == Float {
		return a.F == b.F // the sign of a zero is not fixed where this is used
	}
	return cmpNum(a, b) == 0
}
