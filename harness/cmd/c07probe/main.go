package main

import (
	"fmt"
	"os"
	"time"

	rt "github.com/arnodel/golua/runtime"
	"verif/internal/gl"
)

func try(name string, f func()) {
	defer func() {
		if r := recover(); r != nil {
			fmt.Printf("  [%s] panic: %T %v\n", name, r, r)
		}
	}()
	f()
}

func show(r *rt.Runtime, tag string) {
	fmt.Printf("  %s: depth=%d hard=%v soft=%v used=%v status=%v due=%v flags=%v\n", tag, rt.VerifContextDepth(r), r.HardLimits(), r.SoftLimits(), r.UsedResources(), r.Status(), r.Due(), r.RequiredFlags().Names())
}

func main() {
	fmt.Println("== F9 wrap")
	r := rt.New(os.Stdout)
	r.PushContext(rt.RuntimeContextDef{HardLimits: rt.RuntimeResources{Cpu: 10, Memory: 10}})
	try("cpu3", func() { r.RequireCPU(3) })
	try("cpuhuge", func() { r.RequireCPU(^uint64(0)) })
	show(r, "after huge cpu")
	try("mem3", func() { r.RequireMem(3) })
	try("memhuge", func() { r.RequireMem(^uint64(0) - 1) })
	show(r, "after huge mem")
	fmt.Println(gl.TakeReports())

	fmt.Println("== require after kill")
	r = rt.New(os.Stdout)
	r.PushContext(rt.RuntimeContextDef{HardLimits: rt.RuntimeResources{Cpu: 10}})
	try("cpu20", func() { r.RequireCPU(20) })
	show(r, "after kill")
	try("cpu20", func() { r.RequireCPU(20) })
	show(r, "after second")
	try("push", func() { r.PushContext(rt.RuntimeContextDef{}) })
	show(r, "child of overused")
	fmt.Println(gl.TakeReports())

	fmt.Println("== F10 time pop")
	r = rt.New(os.Stdout)
	t := r.MainThread()
	d0 := rt.VerifContextDepth(r)
	ctx, err := t.CallContext(rt.RuntimeContextDef{HardLimits: rt.RuntimeResources{Millis: 1}}, func() error {
		r.RequireCPU(9000)
		r.RequireCPU(9999)
		show(r, "outer")
		d1 := rt.VerifContextDepth(r)
		ctx2, err2 := t.CallContext(rt.RuntimeContextDef{}, func() error {
			time.Sleep(20 * time.Millisecond)
			r.RequireCPU(5)
			show(r, "inner")
			return nil
		})
		fmt.Println("  inner returned", ctx2, err2, "depth before", d1, "after", rt.VerifContextDepth(r))
		return nil
	})
	fmt.Println("  outer returned", ctx != nil, err, "depth before", d0, "after", rt.VerifContextDepth(r))
	if ctx != nil {
		fmt.Println("  outer ctx", ctx.HardLimits(), ctx.UsedResources(), ctx.Status())
	}
	show(r, "end")
	fmt.Println(gl.TakeReports())

	fmt.Println("== coroutine desync")
	s := gl.NewSess(gl.Options{})
	s.R.SetEnvGoFunc(s.R.GlobalEnv(), "depth", func(t *rt.Thread, c *rt.GoCont) (rt.Cont, error) {
		return c.PushingNext1(t.Runtime, rt.IntValue(int64(rt.VerifContextDepth(t.Runtime)))), nil
	}, 0, false).SolemnlyDeclareCompliance(rt.ComplyCpuSafe | rt.ComplyMemSafe | rt.ComplyTimeSafe | rt.ComplyIoSafe)
	clos, o := s.Compile("p", `
local d0 = depth()
local ctx = runtime.callcontext({kill={cpu=10000}}, function()
   coroutine.wrap(function() pcall(coroutine.yield) end)()
end)
emit("ctx", ctx.status, ctx.kill.cpu, ctx.used.cpu, d0, depth())
emit("now", runtime.context().kill.cpu, runtime.context().status)
local n = 0
for i=1,100000 do n = n + 1 end
emit("survived", n)
`)
	if o != nil {
		fmt.Println(o.String(), o.ErrMsg)
	}
	out := s.Call(rt.FunctionValue(clos), nil)
	fmt.Println(" ", out.String(), out.ErrMsg)

	fmt.Println("== coroutine escape")
	s = gl.NewSess(gl.Options{})
	s.R.SetEnvGoFunc(s.R.GlobalEnv(), "depth", func(t *rt.Thread, c *rt.GoCont) (rt.Cont, error) {
		return c.PushingNext1(t.Runtime, rt.IntValue(int64(rt.VerifContextDepth(t.Runtime)))), nil
	}, 0, false).SolemnlyDeclareCompliance(rt.ComplyCpuSafe | rt.ComplyMemSafe | rt.ComplyTimeSafe | rt.ComplyIoSafe)
	clos, o = s.Compile("p", `
local co = coroutine.wrap(function() pcall(function() coroutine.yield() end) end)
co()
local ctx = runtime.callcontext({kill={cpu=1000}}, function()
   emit("in", runtime.context().kill.cpu, depth())
   co()
   emit("after co", runtime.context().kill.cpu, depth())
   local n = 0
   for i=1,100000 do n = n + 1 end
   emit("escaped", n)
end)
emit("ctx", ctx.status, ctx.kill.cpu, ctx.used.cpu, depth())
`)
	if o != nil {
		fmt.Println(o.String(), o.ErrMsg)
	}
	out = s.Call(rt.FunctionValue(clos), nil)
	fmt.Println(" ", out.String(), out.ErrMsg)
}
