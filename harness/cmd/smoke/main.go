package main

import (
	"fmt"
	"os"

	"github.com/arnodel/golua/lib"
	rt "github.com/arnodel/golua/runtime"
)

func main() {
	r := rt.New(os.Stdout)
	cleanup := lib.LoadAll(r)
	defer cleanup()
	clos, err := r.CompileAndLoadLuaChunk("x", []byte("print(1+1)"), rt.TableValue(r.GlobalEnv()))
	if err != nil {
		fmt.Println(err)
		return
	}
	term := rt.NewTerminationWith(nil, 0, true)
	fmt.Println(rt.Call(r.MainThread(), rt.FunctionValue(clos), nil, term))
}
