package main

import (
	"verif/internal/props/c19"
	"verif/internal/vp"
)

func main() { vp.Main(c19.Prop{}) }
