package main

import (
	"verif/internal/props/c05"
	"verif/internal/vp"
)

func main() { vp.Main(c05.Prop{}) }
