package main

import (
	"fmt"
	"os"
	"sort"
	"syscall"
	"time"

	rt "github.com/arnodel/golua/runtime"

	"verif/internal/gl"
)

func main() {
	t0 := time.Now()
	for i := 0; i < 2000; i++ {
		s := gl.NewSess(gl.Options{})
		s.Close()
	}
	fmt.Println("sess", time.Since(t0)/2000)
	s := gl.NewSess(gl.Options{})
	seen := map[interface{}]bool{}
	fns := map[*rt.GoFunction]string{}
	type item struct {
		v    rt.Value
		path string
	}
	q := []item{{rt.TableValue(s.R.GlobalEnv()), "_G"}, {rt.TableValue(s.R.RawMetatable(rt.StringValue(""))), "<stringmeta>"}}
	for len(q) > 0 {
		it := q[0]
		q = q[1:]
		switch it.v.Type() {
		case rt.TableType:
			t := it.v.AsTable()
			if seen[t] {
				continue
			}
			seen[t] = true
			if m := t.Metatable(); m != nil {
				q = append(q, item{rt.TableValue(m), it.path + "<mt>"})
			}
			var k, v rt.Value
			var ok bool
			type kv struct{ k, v rt.Value }
			var kvs []kv
			for {
				k, v, ok = t.Next(k)
				if !ok || k.IsNil() {
					break
				}
				kvs = append(kvs, kv{k, v})
			}
			sort.Slice(kvs, func(i, j int) bool {
				a, _ := kvs[i].k.ToString()
				b, _ := kvs[j].k.ToString()
				return a < b
			})
			for _, e := range kvs {
				ks, _ := e.k.ToString()
				q = append(q, item{e.v, it.path + "." + ks})
			}
		case rt.UserDataType:
			u := it.v.AsUserData()
			if seen[u] {
				continue
			}
			seen[u] = true
			if m := u.Metatable(); m != nil {
				q = append(q, item{rt.TableValue(m), it.path + "<mt>"})
			}
		case rt.FunctionType:
			c, _ := it.v.TryCallable()
			if g, ok := c.(*rt.GoFunction); ok {
				if _, dup := fns[g]; !dup {
					fns[g] = it.path
				}
			}
		}
	}
	var names []string
	for _, n := range fns {
		names = append(names, n)
	}
	sort.Strings(names)
	fmt.Println(len(names))
	for _, n := range names {
		fmt.Println(n)
	}
	syscall.Access("/VERIF-BEGIN-1", 0)
	f, err := os.Open("/etc/hostname")
	fmt.Println(f, err)
	_, err = syscall.Wait4(-1, nil, syscall.WNOHANG, nil)
	fmt.Println("wait4", err)
	time.Now().Local().Zone()
	syscall.Access("/VERIF-END-1", 0)
}
