package main

import (
	"fmt"
	"os"
	"runtime"

	"github.com/arnodel/golua/lib"
	rt "github.com/arnodel/golua/runtime"
)

func main() {
	os.WriteFile("/verif/work/c08probe-victim.txt", []byte("x"), 0o644)
	r := rt.New(os.Stdout)
	cleanup := lib.LoadAll(r)
	src := `
	print(runtime.callcontext({flags="iosafe"}, function()
		setmetatable({}, {__gc = function() print("gc runs; flags now:", runtime.context().flags, os.remove("/verif/work/c08probe-victim.txt")) end})
		local co = coroutine.create(function() print("co body, flags:", runtime.context().flags, pcall(os.remove, "/verif/work/c08probe-victim.txt")) end)
		CO = co
	end))
	print("after ctx"); coroutine.resume(CO)
	collectgarbage() collectgarbage()
	`
	clos, err := r.CompileAndLoadLuaChunk("x", []byte(src), rt.TableValue(r.GlobalEnv()))
	if err != nil {
		fmt.Println(err)
		return
	}
	term := rt.NewTerminationWith(nil, 0, true)
	fmt.Println(rt.Call(r.MainThread(), rt.FunctionValue(clos), nil, term))
	runtime.GC()
	cleanup()
	r.Close(nil)
	_, e := os.Stat("/verif/work/c08probe-victim.txt")
	fmt.Println("victim exists:", e == nil)
	os.Remove("/verif/work/c08probe-victim.txt")
}
