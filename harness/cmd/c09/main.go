package main

import (
	"verif/internal/props/c09"
	"verif/internal/vp"
)

func main() { vp.Main(c09.Prop{}) }
