package main

import (
	"verif/internal/props/c02"
	"verif/internal/vp"
)

func main() { vp.Main(c02.Prop{}) }
