package main

import (
	"verif/internal/props/c14"
	"verif/internal/vp"
)

func main() { vp.Main(c14.Prop{}) }
