package main

import (
	"verif/internal/props/c10"
	"verif/internal/vp"
)

func main() { vp.Main(c10.Prop{}) }
