package main

import (
	"verif/internal/props/c17"
	"verif/internal/vp"
)

func main() { vp.Main(c17.Prop{}) }
