package main

import (
	"verif/internal/props/c03"
	"verif/internal/vp"
)

func main() { vp.Main(c03.Prop{}) }
