package main

import (
	"verif/internal/props/c16"
	"verif/internal/vp"
)

func main() { vp.Main(c16.Prop{}) }
