package main

import (
	"verif/internal/props/c01"
	"verif/internal/vp"
)

func main() { vp.Main(c01.Prop{}) }
