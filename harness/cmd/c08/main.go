package main

import (
	"verif/internal/props/c08"
	"verif/internal/vp"
)

func main() { vp.Main(c08.Prop{}) }
