package main

import (
	"verif/internal/props/c15"
	"verif/internal/vp"
)

func main() { vp.Main(c15.Prop{}) }
