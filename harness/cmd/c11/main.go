package main

import (
	"verif/internal/props/c11"
	"verif/internal/vp"
)

func main() { vp.Main(c11.Prop{}) }
