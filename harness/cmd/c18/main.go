package main

import (
	"verif/internal/props/c18"
	"verif/internal/vp"
)

func main() { vp.Main(c18.Prop{}) }
