// lgdump generates programs with the lg generator and runs them through the
// reference interpreter and golua; a debugging aid for the engine.
package main

import (
	"flag"
	"fmt"
	"math/rand"
	"sort"

	"verif/internal/eng"
	"verif/internal/lg"
)

func main() {
	seed := flag.Int64("seed", 1, "first seed")
	n := flag.Int("n", 1, "number of programs")
	show := flag.Bool("show", false, "print program text")
	style := flag.Int("style", -1, "only this style index")
	stmts := flag.Int("stmts", 40, "statement budget")
	maxShow := flag.Int("max", 5, "mismatches to print")
	flag.Parse()
	skips := map[string]int{}
	feats := map[string]int{}
	mism := map[string]int{}
	shown := 0
	total, ok, events := 0, 0, 0
	for i := 0; i < *n; i++ {
		r := rand.New(rand.NewSource(*seed + int64(i)))
		o := lg.DefaultGenOptions()
		o.Stmts = *stmts
		g := lg.NewGen(r, o)
		p := g.Program()
		for k, v := range p.Features {
			feats["gen:"+k] += v
		}
		for si, st := range eng.Styles(r, 4) {
			if *style >= 0 && si != *style {
				continue
			}
			text, lines := lg.Render(p.Chunk, st)
			args := eng.ArgsFor(r, p.ArgKinds)
			c := eng.Check(p, text, lines, args)
			total++
			if *show {
				fmt.Printf("---- seed %d style %d args %s\n%s\n", *seed+int64(i), si, eng.ArgsLua(args), text)
				fmt.Printf("reference: %s rets=%v err=%s reason=%s trace=%d\n", c.Want.Kind, c.Want.Rets, c.Want.Err, c.Want.Reason, len(c.Want.Trace))
				for j, e := range c.Want.Trace {
					fmt.Printf("  %3d %v\n", j, e)
				}
			}
			if c.Skip != "" {
				skips[c.Skip]++
				continue
			}
			for k, v := range c.Want.Features {
				feats["ref:"+k] += v
			}
			events += c.Events
			if c.Mis == nil {
				ok++
				continue
			}
			key := c.Mis.What
			mism[key]++
			if shown < *maxShow {
				shown++
				fmt.Printf("==== MISMATCH seed %d style %d: %s\n%s\n", *seed+int64(i), si, c.Mis, c.Describe())
			}
		}
	}
	fmt.Printf("cases=%d agreed=%d events=%d\n", total, ok, events)
	pr := func(title string, m map[string]int) {
		var ks []string
		for k := range m {
			ks = append(ks, k)
		}
		sort.Strings(ks)
		fmt.Println(title)
		for _, k := range ks {
			fmt.Printf("  %6d %s\n", m[k], k)
		}
	}
	pr("mismatches:", mism)
	pr("unspecified:", skips)
	if *n > 1 || *show {
		pr("features:", feats)
	}
}
