package main

import (
	"verif/internal/props/c13"
	"verif/internal/vp"
)

func main() { vp.Main(c13.Prop{}) }
