package main

import (
	"verif/internal/props/c06"
	"verif/internal/vp"
)

func main() { vp.Main(c06.Prop{}) }
