package main

import (
	"verif/internal/props/c20"
	"verif/internal/vp"
)

func main() { vp.Main(c20.Prop{}) }
