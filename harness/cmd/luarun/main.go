// luarun runs a Lua file (or -e source) in a gl session and prints the outcome
// and trace; a debugging aid, not a check.
package main

import (
	"flag"
	"fmt"
	"os"

	rt "github.com/arnodel/golua/runtime"
	"verif/internal/gl"
)

func main() {
	e := flag.String("e", "", "source text")
	cpu := flag.Uint64("cpu", 0, "cpu limit (0 = none)")
	mem := flag.Uint64("mem", 0, "memory limit")
	flag.Parse()
	src := *e
	name := "chunk"
	if src == "" && flag.NArg() > 0 {
		b, err := os.ReadFile(flag.Arg(0))
		if err != nil {
			fmt.Println(err)
			os.Exit(2)
		}
		src = string(b)
	}
	s := gl.NewSess(gl.Options{})
	defer s.Close()
	clos, out := s.Compile(name, src)
	if out == nil {
		if *cpu > 0 || *mem > 0 {
			out = s.CallInContext(rt.RuntimeContextDef{HardLimits: rt.RuntimeResources{Cpu: *cpu, Memory: *mem}}, rt.FunctionValue(clos), nil)
		} else {
			out = s.Call(rt.FunctionValue(clos), nil)
		}
	}
	fmt.Printf("kind=%s rets=[%s] err=%s errmsg=%q status=%s cpu=%d mem=%d\n", out.Kind, out.Rets, out.ErrVal, out.ErrMsg, out.CtxStatus, out.UsedCPU, out.UsedMem)
	if out.PanicMsg != "" {
		fmt.Println("PANIC:", out.PanicMsg)
		fmt.Println(out.Stack)
	}
	for i, t := range out.Trace {
		fmt.Printf("%3d %s\n", i, t)
	}
	for _, r := range out.Reports {
		fmt.Println("REPORT", r)
	}
	if out.Stdout != "" {
		fmt.Print("stdout: ", out.Stdout)
	}
}
