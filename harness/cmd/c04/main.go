package main

import (
	"verif/internal/props/c04"
	"verif/internal/vp"
)

func main() { vp.Main(c04.Prop{}) }
