package main

import (
	"verif/internal/props/c12"
	"verif/internal/vp"
)

func main() { vp.Main(c12.Prop{}) }
