package main

import (
	"bufio"
	"fmt"
	"os"
	"strconv"

	"verif/internal/gl"
)

// reads Go-quoted strings one per line from stdin; runs each as a chunk
func main() {
	sc := bufio.NewScanner(os.Stdin)
	sc.Buffer(make([]byte, 1<<20), 1<<20)
	for sc.Scan() {
		l := sc.Text()
		if l == "" {
			continue
		}
		src, err := strconv.Unquote(l)
		if err != nil {
			fmt.Println("bad line:", l, err)
			continue
		}
		o := gl.Run("chunk", src, nil)
		fmt.Printf("%s\n   => %s %s %s %s\n", l, o.Kind, o.Rets, o.ErrMsg, o.PanicMsg)
	}
}
