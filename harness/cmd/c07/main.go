package main

import (
	"verif/internal/props/c07"
	"verif/internal/vp"
)

func main() { vp.Main(c07.Prop{}) }
