package main

import (
	"bufio"
	"fmt"
	"os"

	"verif/internal/gl"
)

// reads Lua chunks separated by lines "----" from stdin, runs each, prints outcome
func main() {
	sc := bufio.NewScanner(os.Stdin)
	sc.Buffer(make([]byte, 1<<20), 1<<20)
	for sc.Scan() {
		src := sc.Text()
		o := gl.Run("probe", src, nil)
		fmt.Printf("%s\n   => %s %s %s %s\n", src, o.Kind, o.Rets, o.ErrMsg, o.PanicMsg)
	}
}
